"""Plain unittest that replays one recorded violation without the explorer.

    VERIF_REPLAY=/verif/replays/C11/<hash>.json /venv/bin/python -m unittest tests.test_replay     (from /verif)

The replay file names the property, the case (program spec, values, schedule or history) and the signature that was
observed.  The test re-executes exactly that case against the tree in VERIF_REPO (default /repo) through the property
module's replay() and fails - printing what was observed - iff the same violation occurs again.  Without VERIF_REPLAY
every file under replays/ is replayed (all of them are expected to pass on a tree on which the checks are silent)."""
import glob
import importlib
import json
import os
import sys
import unittest

HERE = os.path.dirname(os.path.dirname(os.path.abspath(__file__)))
REPO = os.environ.get('VERIF_REPO', '/repo')
for p in (HERE, REPO):
    if p not in sys.path:
        sys.path.insert(0, p)


def replay_file(path):
    doc = json.load(open(path))
    mod = importlib.import_module('vf.props.%s' % doc['property'].lower())
    found = mod.replay(doc['case'])
    same = [v for v in found if v['sig'] == doc.get('sig')] or found
    if isinstance(doc['case'], dict) and not isinstance(doc['case'].get('shard'), dict) and isinstance(doc['case'].get('_shard'), dict):
        doc['case']['shard'] = doc['case']['_shard']
    if not same and isinstance(doc['case'], dict) and isinstance(doc['case'].get('shard'), dict):
        # history-dependent case: replay the whole shard it belongs to, from its start
        same = [v for v in mod.run_shard(doc['case']['shard']).get('violations', []) if v['sig'] == doc.get('sig')]
    return doc, same


class Replay(unittest.TestCase):
    def test_replay(self):
        import logging
        logging.disable(logging.CRITICAL)
        import spyne
        self.assertTrue(os.path.realpath(spyne.__file__).startswith(os.path.realpath(REPO)), 'spyne imported from %s' % spyne.__file__)
        one = os.environ.get('VERIF_REPLAY')
        files = [one] if one else sorted(glob.glob(os.path.join(HERE, 'replays', '*', '*.json')))
        for f in files:
            with self.subTest(replay=f):
                doc, vio = replay_file(f)
                self.assertEqual([], [(v['sig'], v['what'][:300]) for v in vio],
                                 'property %s is violated by the recorded case %s' % (doc['property'], f))


if __name__ == '__main__':
    unittest.main()
