#!/venv/bin/python
"""Summarise violation signatures of the last run from evidence/<ID>.json, grouped by prefix depth."""
import json, sys, collections
pid = sys.argv[1]
depth = int(sys.argv[2]) if len(sys.argv) > 2 else 3
filt = sys.argv[3] if len(sys.argv) > 3 else ''
import os
p1, p2 = '/verif/evidence/%s.json' % pid, '/verif/scratch/%s.json' % pid
p = p2 if os.path.exists(p2) and (not os.path.exists(p1) or os.path.getmtime(p2) > os.path.getmtime(p1)) else p1
e = json.load(open(p))
c = collections.Counter(); n = collections.Counter()
for s, k in e['coverage']['violation_signatures'].items():
    if filt and filt not in s: continue
    key = '|'.join(s.split('|')[:depth])
    c[key] += k; n[key] += 1
for k in sorted(c): print('%7d cases %5d sigs  %s' % (c[k], n[k], k))
print('outcomes', e['coverage']['outcomes']); print('notes', e['coverage'].get('notes'))
