#!/venv/bin/python
"""vio.py <ID> <regex> [n]: show examples of violations of the last run whose signature matches"""
import json, re, sys
d = json.load(open('/verif/scratch/%s.violations.json' % sys.argv[1]))
n = int(sys.argv[3]) if len(sys.argv) > 3 else 2
k = 0
for s in sorted(d):
    if re.search(sys.argv[2], s):
        k += 1
        if k <= n:
            print(s, '(%d)' % d[s]['count']); print('    ', d[s]['what'][:1500])
print(k, 'signatures match')
