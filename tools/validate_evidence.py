#!/usr/bin/env python3-vt
import json, sys, glob, jsonschema
sch = json.load(open('/root/.vp/EVIDENCE.schema.json'))
bad = 0
for f in sorted(glob.glob('/verif/evidence/*.json')):
    try:
        jsonschema.validate(json.load(open(f)), sch); print('ok ', f)
    except Exception as e:
        bad += 1; print('BAD', f, str(e)[:300])
sys.exit(1 if bad else 0)
