#!/bin/sh
# usage: tools/seed_verify.sh <dir with patch.diff demo.py> -- confirms a seeded change in a fresh scratch worktree:
# patch applies to /repo HEAD; baseline 696/696 with it; demo exits 1 with it and 0 on /repo
D="$(readlink -f "$1")"
WT=/tmp/vfseed.$$
git -C /repo worktree add -q --detach "$WT" HEAD || exit 2
( cd "$WT" && git apply "$D/patch.diff" ) || { git -C /repo worktree remove --force "$WT"; echo "patch does not apply"; exit 2; }
echo "baseline: $(/venv/bin/python /verif/tools/baseline.py "$WT" 2>&1 | tail -1)"
( cd /tmp && PYTHONHASHSEED=0 timeout 600 /venv/bin/python "$D/demo.py" "$WT" >/tmp/vfseed.$$.out 2>&1; echo "demo on patched tree: exit $?" ; tail -3 /tmp/vfseed.$$.out | cut -c1-200)
( cd /tmp && PYTHONHASHSEED=0 timeout 600 /venv/bin/python "$D/demo.py" /repo >/tmp/vfseed.$$.out 2>&1; echo "demo on /repo: exit $?" )
rm -f /tmp/vfseed.$$.out
git -C /repo worktree remove --force "$WT"
