#!/venv/bin/python
"""Run the repository's pinned baseline suite (guard OFF) and compare with /root/.vp/BASELINE.json.
usage: baseline.py [repo_dir]   exit 0 iff every stable_pass test passed."""
import json, os, subprocess, sys, tempfile
import xml.etree.ElementTree as ET
repo = sys.argv[1] if len(sys.argv) > 1 else '/repo'
base = json.load(open('/root/.vp/BASELINE.json'))
fd, junit = tempfile.mkstemp(suffix='.junit.xml'); os.close(fd)
env = dict(os.environ); env.pop('SPYNE_VERIF', None)
cmd = ['/venv/bin/python', '-m', 'pytest', '-ra', '-q', '-p', 'no:cacheprovider', '--timeout=900',
       '--continue-on-collection-errors', '--junitxml=' + junit]
p = subprocess.run(cmd, cwd=repo, env=env, stdout=subprocess.PIPE, stderr=subprocess.STDOUT, text=True)
passed = set()
for tc in ET.parse(junit).getroot().iter('testcase'):
    if not any(c.tag in ('failure', 'error', 'skipped') for c in tc):
        passed.add('%s::%s' % (tc.get('classname'), tc.get('name')))
os.unlink(junit)
missing = [t for t in base['stable_pass'] if t not in passed]
print('stable_pass=%d passed_now=%d missing=%d' % (len(base['stable_pass']), len(passed), len(missing)))
for m in missing: print('  NOT PASSING:', m)
sys.exit(1 if missing else 0)
