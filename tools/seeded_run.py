#!/venv/bin/python
"""Confirm seeded changes and record which checks report them.
  tools/seeded_run.py [seed dir names...]      (default: all under /verif/seeded)
For every seeded/<id>/: (1) fresh scratch worktree of /repo HEAD + patch.diff; (2) the repository's baseline suite must
still pass on it; (3) demo.py must exit 1 on it and 0 on /repo; (4) the checks named in meta.json["checks"] (default: the
property's own check) are run on it with VERIF_REPO (quick tier, then thorough if quick is silent and meta allows).
Results go to meta.json ("verified", "detected") and seeded/README.md.  Never touches /repo's working tree."""
import json, os, subprocess, sys, re, glob, shutil

ROOT = '/verif/seeded'


def sh(cmd, **kw):
    return subprocess.run(cmd, shell=isinstance(cmd, str), stdout=subprocess.PIPE, stderr=subprocess.STDOUT, text=True, **kw)


def run_seed(d):
    mp = os.path.join(d, 'meta.json')
    meta = json.load(open(mp)) if os.path.exists(mp) else {}
    sid = os.path.basename(d)
    prop = meta.get('property') or sid[:3].upper()
    meta['id'] = sid
    meta['property'] = prop
    if meta.get('superseded'):
        return meta
    wt = '/tmp/vfseedrun.%d' % os.getpid()
    sh('git -C /repo worktree remove --force %s' % wt)
    r = sh('git -C /repo worktree add -q --detach %s HEAD' % wt)
    try:
        r = sh('git apply %s' % os.path.join(d, 'patch.diff'), cwd=wt)
        if r.returncode != 0:
            meta['verified'] = {'error': 'patch does not apply to /repo HEAD: ' + r.stdout[-200:]}
            return meta
        meta['files_changed'] = sorted(set(re.findall(r'^\+\+\+ b/(\S+)', open(os.path.join(d, 'patch.diff')).read(), re.M)))
        base = sh(['/venv/bin/python', '/verif/tools/baseline.py', wt]).stdout.strip().splitlines()[-1]
        env = dict(os.environ, PYTHONHASHSEED='0')
        d1 = sh(['/venv/bin/python', os.path.join(d, 'demo.py'), wt], cwd='/tmp', env=env, timeout=900)
        d0 = sh(['/venv/bin/python', os.path.join(d, 'demo.py'), '/repo'], cwd='/tmp', env=env, timeout=900)
        meta['verified'] = {'repo_head': sh('git -C /repo rev-parse --short HEAD').stdout.strip(), 'baseline_on_patched_tree': base,
                            'demo_exit_on_patched_tree': d1.returncode, 'demo_exit_on_repo': d0.returncode,
                            'demo_says': d1.stdout.strip().splitlines()[-3:]}
        det = {}
        for cid in meta.get('checks') or [prop]:
            for tier in ('quick', 'thorough'):
                p = sh(['/verif/check', cid, '--tier', tier], env=dict(os.environ, VERIF_REPO=wt), cwd='/verif')
                vio = [l for l in p.stdout.splitlines() if l.startswith('VIOLATION')]
                sigs = [l.strip()[len('signature: '):] for l in p.stdout.splitlines() if l.strip().startswith('signature: ')]
                det['%s/%s' % (cid, tier)] = {'exit': p.returncode, 'violation_lines': len(vio), 'first_signatures': sigs[:3]}
                if p.returncode == 1 or tier == 'thorough' or not meta.get('try_thorough', False):
                    break
        meta['detected'] = det
    finally:
        sh('git -C /repo worktree remove --force %s' % wt)
        shutil.rmtree(wt, ignore_errors=True)
    return meta


def readme():
    rows = []
    for d in sorted(glob.glob(ROOT + '/*/')):
        mp = os.path.join(d, 'meta.json')
        if not os.path.exists(mp):
            continue
        m = json.load(open(mp))
        det = m.get('detected', {})
        if m.get('superseded'):
            rows.append('| %s | %s | %s | %s | (superseded: %s) |' % (m.get('id'), m['property'], ', '.join(m.get('files_changed', [])), (m.get('needs') or '').replace('|', '/'), m['superseded'][:160].replace('|', '/')))
            continue
        caught = ', '.join('%s (%s)' % (k, (v['first_signatures'] or ['?'])[0][:70]) for k, v in det.items() if v['exit'] == 1) or 'NOT DETECTED'
        rows.append('| %s | %s | %s | %s | %s |' % (m.get('id', os.path.basename(d.rstrip('/'))), m['property'], ', '.join(m.get('files_changed', [])), (m.get('needs') or '').replace('|', '/'), caught.replace('|', '/')))
    out = ['# Seeded property-breaking changes', '',
           'Each directory holds `patch.diff` (against /repo HEAD), `demo.py` (exit 1 with the patch, 0 without), the',
           "author's `note.md` and `meta.json` (what it needs to manifest, what was run, which checks report it). All were",
           'written by independent sub-agents that saw only the property text and a scratch worktree; all keep the 696-test',
           'baseline green. Regenerate with `tools/seeded_run.py`.', '',
           '| id | property | files | needs, to manifest | reported by (first signature) |', '|---|---|---|---|---|'] + rows
    open(os.path.join(ROOT, 'README.md'), 'w').write('\n'.join(out) + '\n')


if __name__ == '__main__':
    names = sys.argv[1:] or sorted(os.path.basename(x.rstrip('/')) for x in glob.glob(ROOT + '/*/'))
    for n in names:
        d = os.path.join(ROOT, n)
        m = run_seed(d)
        json.dump(m, open(os.path.join(d, 'meta.json'), 'w'), indent=1, sort_keys=True)
        v = m.get('verified', {})
        print(n, v.get('baseline_on_patched_tree'), 'demo', v.get('demo_exit_on_patched_tree'), v.get('demo_exit_on_repo'),
              {k: x['exit'] for k, x in m.get('detected', {}).items()}, flush=True)
    readme()
