#!/bin/sh
# usage: tools/mutant.sh <patch file> <check id> [more ids...]   (runs quick tier on a scratch worktree with the patch applied)
P="$(readlink -f "$1")"; shift
WT=/tmp/vfmut.$$
git -C /repo worktree add -q --detach "$WT" HEAD || exit 2
( cd "$WT" && git apply "$P" ) || { git -C /repo worktree remove --force "$WT"; echo "patch does not apply"; exit 2; }
RC=0
for id in "$@"; do
  VERIF_REPO="$WT" /verif/check "$id" --tier "${TIER:-quick}" 2>&1 | grep -v "^KNOWN-FINDING" | tail -${LINES_OUT:-6} | cut -c1-300
done
git -C /repo worktree remove --force "$WT"
