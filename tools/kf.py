#!/venv/bin/python
"""Maintenance helper for known_findings.json (never used at check run time).
  kf.py fixed <prop> <commit> <what>
  kf.py finding <prop> <signature> <what> [example]"""
import json, sys
p = '/verif/known_findings.json'
d = json.load(open(p))
kind = sys.argv[1]
if kind == 'fixed':
    d['entries'].append({'kind': 'fixed', 'property': sys.argv[2], 'commit': sys.argv[3], 'what': sys.argv[4],
                         'line': 'fixed: property=%s %s %s' % (sys.argv[2], sys.argv[3], sys.argv[4])})
else:
    e = {'kind': 'finding', 'property': sys.argv[2], 'signature': sys.argv[3], 'what': sys.argv[4]}
    if len(sys.argv) > 5:
        e['example'] = sys.argv[5]
    d['entries'] = [x for x in d['entries'] if not (x.get('kind') == 'finding' and x.get('signature') == e['signature'])]
    d['entries'].append(e)
json.dump(d, open(p, 'w'), indent=1)
print(len(d['entries']), 'entries')
