#!/venv/bin/python
"""Writes /verif/MANIFEST.json from the table below (single source of truth) and validates it."""
import json, os, subprocess, sys
VERIF = os.path.dirname(os.path.dirname(os.path.abspath(__file__)))
props = [json.loads(l) for l in open(os.path.join(VERIF, 'properties.jsonl'))]
ids = [p['id'] for p in props]

CHECKS = {
 'C15': dict(engine='E3 spec', category='model_checking', design_ref='3 C15',
   technique='explicit-state breadth-first search over derivation histories on real model classes with alias-aware canonical states and frame / post / order invariants',
   text='States are histories of 17 (quick) / 20 (thorough) derivation and evolution operations - primitive customisation with constraints, customize with min_occurs / nillable / sub_name / type_name / default, child_attrs, child_attrs_all, Array wrapped and unwrapped, Iterable, Mandatory, subclassing, append_field, insert_field, one attribute dict reused for two customisations - applied to any member of a growing pool seeded with Unicode, Integer, Decimal, ByteArray, a class, its subclass and two arrays. Each state is rebuilt by replaying its history on fresh classes; every transition calls the real API; all histories to depth 2 (quick, ~4 900) / 3 (thorough, ~730 000) are explored, deduplicated on snapshots + alias partition. After every transition: no other pooled model changed its snapshot (attributes, ordered fields, validation verdicts on probes) except the documented effect of append/insert_field on the class, its variants and subclasses; the new model carries the requested attributes and no others; flat field order is declaration order, parents first. The depth-2 search is repeated in fresh processes under three other hash seeds and must give the same canonical states.',
   note='Rendered-schema snapshots are not part of the canonical state yet; stock primitives are process-global, so a mutation of one is attributed to the first history that observes it.'),
 'C13': dict(engine='E3 spec', category='model_checking', design_ref='3 C13',
   technique='explicit-state model checking of a TLA+ model of the WSGI exchange (TLC) with every terminal behaviour replayed on the real WsgiApplication under wsgiref.validate',
   text='tla/Wsgi.tla fixes all environment choices in Init - request kind {success, generator, user fault, validation error, unknown method, malformed, ?wsdl} x body length x max_content_length x CONTENT_LENGTH {absent, empty, 0..MaxB+1} x block length x short reads x client abort after {0,1,2,all} chunks - and models the bounded reader as a loop. TLC explores it completely (27 703 states quick, ~120 000 thorough) under the invariants ReadBound, StartOnceBeforeBody, NoFuncWhenTooLong, NoFuncWhenOver, ClosedOnce, ClosedAfterBody. Every terminal state (3 748 quick / 12 772 thorough behaviours) is replayed for JSON and SOAP 1.1 x chunked on/off with lengths scaled by a unit: bytes actually read from a counting (optionally one-byte-short-reading) wsgi.input, whether the user function ran, the status class and the order of START / CHUNK / CTXCLOSED must equal the model; status and header types, bytes chunks, Content-Length and wsgiref.validate are checked on the concrete run.',
   note='Sizes of individual reads are not compared, only their sum; the order of the server\'s close() call and the context close is not constrained (both are after the body).'),
 'C14': dict(engine='E3 spec', category='model_checking', design_ref='3 C14',
   technique='explicit-state model checking of a TLA+ pipeline model (TLC) with every model behaviour replayed on the implementation, plus BFS over listener-registration histories on real EventManager objects',
   text='tla/Events.tla models the call pipeline with nine failure points (none, malformed bytes, bad envelope, unknown method, invalid argument, raising method_call listener, raising function, raising method_return_object listener, unserialisable return) and two exception kinds; TLC explores all 120 states and checks the property (context created first / closed last once, function after method_call at most once, return vs exception events exclusive and ordered) as invariants. Every one of the 12 terminal behaviours is replayed for seven protocol families x {ServerBase, WSGI} x raising-listener level {application, service, method}: the failure is injected at the modelled stage and recording listeners on all three managers must reproduce the model trace (application level) and its projection (service, method level). Registration semantics: breadth-first search over all add/del/del-all histories (3 listeners, 2 events, depth 4 quick / 5 thorough) against an insertion-ordered duplicate-free reference, plus service-listener inheritance.',
   note='Failure points a family cannot realise are skipped and listed in the evidence; protocol/transport-level events are not constrained.'),
 'C17': dict(engine='E1 enum', category='exploration', design_ref='3 C17',
   technique='exhaustive attack kind x injection position x protocol x transport with inotify / socket canaries, parser-option monitor and child-process resource bounds',
   text='External general entities over file/http/ftp, external parameter entities, internal entities, XInclude, processing instructions and comments injected at every leaf text and every attribute of a valid request, and three external-DTD doctypes, for XmlDocument, Soap11 and Soap12 with default arguments through ServerBase and WSGI. Armed monitors (self-tested against a deliberately unsafe parser at the start of every shard): inotify open/access watches on the canary files, a listening canary socket, canary content in captured arguments / response, and the keyword arguments of every XMLParser constructed. Entity-chain bombs for a (fan-out, depth) grid in element text and in attribute values, quadratic blow-up, deep nesting and huge attribute counts run one per child process under 10 s / 256 MiB bounds and must end in a Client fault or be accepted unexpanded.',
   note='libxml2 here has no HTTP/FTP client: network contact can only show through the socket canary and the parser options. An internal entity inside an attribute value is substituted by libxml2 regardless of options; only external/parameter entity text counts as disclosure.'),
 'C07': dict(engine='E1 enum', category='exploration', design_ref='3 C07',
   technique='exhaustive feature lattice of applications: QName closure and cross-reference checks, rebuild under enumerated hash seeds in fresh processes, zeep driven from the WSDL alone',
   text='The full product of services {1,2,3} x custom operation names x custom message names x in/out headers {0,1,2} x declared faults {none, one, shared} x port types x namespaces {1,2,3; 3 adds a hub type importing four more namespaces} x body style {wrapped, bare, out_bare} x SOAP 1.1/1.2 (1152 applications quick, 3888 thorough). For each: the WSDL parses; every type/base/itemType/ref/element/message/binding QName resolves; each method is exactly one portType operation with one binding operation, existing messages and the declared faults; two builds in one process and builds in fresh interpreters under ten PYTHONHASHSEED values are byte-identical; zeep built from the WSDL bytes alone calls every method (arguments, headers, declared fault) and must see equal values. The level-A programs add every alphabet value through zeep.',
   note='zeep is trusted only where vf.ref.xsdlex agrees: requests zeep itself encodes invalidly (e.g. year-1 dates) and values it decodes differently from the reference are counted as toolkit deviations, not reported.'),
 'C06': dict(engine='E1 enum', category='exploration', design_ref='3 C06',
   technique='bounded-exhaustive enumeration: independent schema compilation, validation of every Spyne-emitted document, lxml-vs-soft verdict pairs over the facet lattice',
   text='(a) For every program of the level A / level B universe, two schema-specific programs (three namespaces with cross-namespace fields and bases, attributes with use, enum, XmlData) and every facet program, the published schema documents are serialised and compiled by lxml independently of Spyne. (b) Every request produced by Spyne\'s own client serialiser and every response of its server for every conformant alphabet value, for XmlDocument, Soap11 and Soap12, is validated against that schema. (c) For every value of the C05 facet lattice (boundaries, all 8-/16-bit values, occurrence counts, ill-formed literals) in four positions the server is run with validator=lxml and with validator=soft and the accept/reject verdicts must coincide.',
   note='Facets soft validation does not implement (total/fraction digits) are not sent in (c); xml_choice_group is not generated (not expressible in the program spec).'),
 'C18': dict(engine='E1 enum', category='exploration', design_ref='3 C18',
   technique='bounded-exhaustive differential enumeration: NullServer vs three wire paths over signatures x values x call styles',
   text='Every atom of the type alphabet in the positions argument / field / nested field / array / repeated member / several return values / out_bare / bare (complex argument passed field-wise), arities 0..3 x 0..3 return values, generator results, Ignored returns, Faults and a non-Fault exception; every conformant alphabet value; every call positional, by keyword and mixed. The value NullServer hands back (or the fault it raises) must equal what the reference decoders read from the XmlDocument, Soap11 and JsonDocument responses of the very same call, and the function must have seen the same arguments.',
   note='The wire paths are themselves decided by C01/C02; JSON is skipped for the bare style (no documented convention).'),
 'C16': dict(engine='E1 enum', category='exploration', design_ref='3 C16',
   technique='exhaustive class trees x declared/runtime class pairs x positions x protocols x polymorphic flag against reference codecs and the loopback client',
   text='Every rooted class tree with up to 3 (quick) / 5 (thorough) classes and depth <= 3, each class adding one or two fields; every class as declared type with every descendant as runtime class; as argument, return value, field of another object, customised variant, repeated member, and array holding every ordered pair of descendants; XmlDocument, Soap11, Soap12 with polymorphic on/off and JSON, YAML, MessagePack with ignore_wrappers=False and polymorphic on/off. The reference codecs send subclass instances with a type marker and decode responses; every xsi:type in an emitted document must resolve through the namespace declarations in scope there; with polymorphism off exactly the declared fields arrive; object members must be in ancestors-first order; the loopback client must reconstruct the same class.',
   note='Subclasses are placed in the namespace of their base, as the property says.'),
 'C11': dict(engine='E1 enum', category='exploration', design_ref='3 C11',
   technique='exhaustive service-list permutations x naming channels x registered names and near-misses, per-function invocation records',
   text='Application layouts with 2-4 services whose methods draw their public names (function name, _operation_name, _in_message_name) from an adversarial pool (get/Get/GET/get_/_get/getx/ge/get.x and a Cyrillic homoglyph); every permutation of the service list; nine naming channels (XML root tag qualified / other namespace / unqualified, SOAP 1.1 and 1.2 body child, JSON, YAML, MessagePack key, msgpack-rpc name field, HttpRpc URL path, JSON over WSGI); every registered name and every near-miss (five case flips, seven one-character prefixes and suffixes, every deletion, doubled, Response-suffixed, empty, space-prefixed). A registered name must run exactly its function under every permutation; a near-miss runs nothing and ends in a Client fault (404 over HTTP); four colliding layouts must be refused at construction in every service order.',
   note='HttpPattern routing needs werkzeug (absent); an unqualified XML name is documented to default to the target namespace and may run the function registered for it, never another.'),
 'C09': dict(engine='E1 enum', category='exploration', design_ref='3 C09',
   technique='bounded-exhaustive enumeration of fault class x code x message x detail x raising method x protocol x transport; secret-token scan',
   text='Fault, generated Fault subclasses with and without CODE, and the seven built-in error classes x six fault codes (dotted sub-codes, open vocabulary where the protocol allows) x ASCII / non-ASCII / markup / empty messages x none / flat / nested detail, raised from the first, (thorough: middle) and last method, under eight output protocols (thorough: dict family also with wrappers and positional form), through ServerBase, WsgiApplication and the loopback Spyne client for the XML family; ten non-Fault exception types each carrying a fresh secret in arguments, type name and a local variable. The protocol\'s reference fault decoder must give back code, message and detail; HTTP status must be the documented one; the generic Server / Internal Error fault must contain no secret, type name or traceback in status, headers or body.',
   note='HttpRpc text faults carry no detail; SOAP 1.2 codes restricted to Client/Server first segments as the property says.'),
 'C10': dict(engine='E1 enum', category='exploration', design_ref='3 C10',
   technique='deviation-bounded exhaustive mutation of valid requests (all truncations, all single / double structural deviations, all <= 2-byte documents)',
   text='A corpus of valid requests (9 quick / 17 thorough atoms x positions field/array/argument) for every input protocol (XmlDocument, Soap11, Soap12 x validator None/soft/lxml; JSON, YAML, MessagePack, MessagePackRpc x None/soft; HttpRpc x None/soft) through ServerBase and through WsgiApplication. Deviation 1 exhaustively: every prefix truncation, every leaf text x a 21-item corruption alphabet, every element/key deleted, duplicated, renamed, re-qualified, nil-ed, re-kinded, nested deeper or shallower, empty and garbled documents; all 256 one-byte and 961 two-byte structural documents; thorough adds all pairs of structural mutations. Nothing may escape the pipeline or the WSGI callable; a fault must decode with the reference decoder, be in the Client family (4xx for non-SOAP, 500 for SOAP), and the function must not have run.',
   note='"all byte strings" is covered only as these finite families; random bytes are not drawn (sampling is a different family).'),
 'C04': dict(engine='E1 enum', category='exploration', design_ref='3 C04',
   technique='exhaustive single type-directed mutation of valid requests; type walk of the arguments captured in user code',
   text='For valid requests of a program with inheritance, unrelated classes, arrays, repeated members, enums and ten primitive kinds (and a SOAP header program): every element retagged xsi:type with every class key of the interface plus XSD built-ins (prefixes bound in the document) under validator None/soft/lxml for XmlDocument, Soap11 and Soap12; every node of the JSON/YAML/MessagePack document replaced by every other value kind and every wrapper key renamed to every other class name and to an unknown one, for ignore_wrappers x polymorphic under soft validation; an index, a sub-key, a truncation and a duplicate on every HttpRpc key. The oracle walks what the user function received against the declared type tree; if the function did not run the answer must be a Client-family fault.',
   note='int is accepted where Double/Decimal is declared; only single mutations are enumerated; dict/HttpRpc mutations run with validator=soft as the property quantifies.'),
 'C03': dict(engine='E1 enum', category='exploration', design_ref='3 C03',
   technique='exhaustive permutation of flattened query pairs, index spellings and configurations against a reference unflattener, through WSGI GET',
   text='For fixed nested signature shapes (primitives, object, arrays of objects of 1/2/3/11 members, arrays of objects holding arrays) and every small shape, every permutation of the query pairs (all n! up to 5 pairs quick / 6 thorough; beyond that sorted, reversed, all rotations and all adjacent transpositions), contiguous / sparse / omitted index spellings, three delimiters x strict_arrays x validator, four percent-encoding variants, through the real WsgiApplication. The reference unflattener gives the expected object for that very pair sequence; sparse spellings under strict_arrays must be refused; object_to_simple_dict o simple_dict_to_object must be the identity; every primitive return value must be the exact body with declared out-header fields as HTTP headers.',
   note='POST form bodies cannot be parsed on this image (no werkzeug): query strings only. vf/ref/httpcodec.py is the reference notation.'),
 'C05': dict(engine='E1 enum', category='exploration', design_ref='3 C05',
   technique='bounded-exhaustive enumeration of the facet lattice x boundary values x positions x six protocol families against a reference validity predicate',
   text='Every single facet and selected facet pairs (ranges, fixed-width bounds, lengths, patterns, enumerations, nullability, occurrence) with values on, just inside and just outside every boundary - all values of the 8-bit (quick) and 16-bit (thorough) integer types +-16, occurrence counts 0..max+2 for min_occurs {0,1,2} x max_occurs {1,2,3,unbounded} - plus lexically ill-formed literals, in the positions argument / nested field / array member / XML attribute, through XmlDocument, Soap11, JsonDocument, YamlDocument, MessagePackDocument and HttpRpc with validator=soft. The reference predicate fixes one expected verdict per logical request, so agreement with it in all six families also settles the cross-protocol clause.',
   note='vf/ref/validity.py is the reference semantics; total/fraction digits are not in the property\'s list and are not demanded; exponent decimals and case variants of booleans are not demanded to be refused (the repository\'s tests send them); combinations a family cannot spell (nil in a query string, a repeated JSON key) are skipped and counted.'),
 'C02': dict(engine='E1 enum', category='exploration', design_ref='3 C02',
   technique='bounded-exhaustive enumeration of (program, value, configuration) round trips against a convention-driven reference codec and stdlib json / PyYAML / msgpack',
   text='The C01 universe (atoms x positions, shapes x assignments) through JsonDocument, YamlDocument, MessagePackDocument (str- and bin-keyed requests) and MessagePackRpc x ignore_wrappers x complex_as {dict, list} x validator {None, soft}; 40 configurations taken in full. Requests are produced and responses decoded by third-party serialisers from plain Python documents built by an independent codec; integers to 10**30, 40-digit decimals and (thorough) every Unicode scalar value are in the alphabets.',
   note='Conventions of DESIGN Appendix C are the reference; the bare body style has no documented dict convention and is excluded; positional form only for fully populated objects; PyYAML strings it cannot round-trip itself are excluded and counted.'),
 'C01': dict(engine='E1 enum', category='exploration', design_ref='3 C01',
   technique='bounded-exhaustive enumeration of (program, value, configuration) round trips against a schema-driven reference codec and Spyne\'s own client',
   text='Every atom of a 42-type alphabet in every one of 12 structural positions, and every object shape with up to 2 (quick) / 3 (thorough) fields, with every conformant boundary value / every None-empty-one-two container assignment, through XmlDocument, Soap11 and Soap12 under validator None/soft/lxml on the real ServerBase pipeline. Requests are built from the published XML Schema by an independent codec, so the check covers both directions with a non-Spyne peer; the loopback client repeats every wrapped-style call with Spyne\'s own client code. The space is finite and enumerated completely.',
   note='Reference codec (vf/ref/xsdcodec.py, xsdlex.py) and lxml are trusted; interactions of 4+ sibling fields, and values outside the boundary alphabets, are not explored.'),
 'C08': dict(engine='E1 enum', category='exploration', design_ref='3 C08',
   technique='bounded-exhaustive enumeration of primitive values and XSD literals against reference lexical mappings',
   text='Exhaustive over the stated alphabets (all 1681 UTC offsets x instants x microsecond classes, all 8-bit and (thorough) 16-bit integers, boundary values of every other primitive, every alternative lexical form the XSD grammar allows for those values) through the real to_unicode/from_unicode handlers of ProtocolBase, XmlDocument and Soap11; each printed literal is validated by lxml as the advertised xs: type and each literal read back is compared with an independent reference parser. A coverage statement over a finite space, not a sample.',
   note='Trusts lxml/libxml2 as XSD lexical validator and vf/ref/xsdlex.py as the reference; values outside the alphabets (e.g. arbitrary mid-range decimals) are not covered.'),
}
NOT_BUILT = 'check not built yet in this session (design in DESIGN.md section 3); not claimed until its command exists'

def main():
    checks, na = [], []
    for i in ids:
        c = CHECKS.get(i)
        if c is None:
            na.append({'property_id': i, 'reason': NOT_BUILT})
            continue
        checks.append({
            'property_id': i,
            'quick_cmd': './check %s --tier quick' % i,
            'thorough_cmd': './check %s --tier thorough' % i,
            'evidence_file': 'evidence/%s.json' % i,
            'replay_cmd_template': './check %s --replay {path}' % i,
            'engine': c['engine'],
            'level_claimed': {'category': c['category'], 'text': c['text'], 'design_ref': c['design_ref']},
            'level_note': c['note'],
            'technique': c['technique'],
        })
    hooks_commits = []
    hc = os.path.join(VERIF, 'hooks_commits.txt')
    if os.path.exists(hc):
        hooks_commits = [l.split()[0] for l in open(hc) if l.strip() and not l.startswith('#')]
    m = {
        'version': 1,
        'setup_cmd': './setup.sh',
        'hooks': {'guard': 'SPYNE_VERIF', 'enable': 'checks export SPYNE_VERIF=1 and put /repo first on PYTHONPATH; spyne is pure Python, nothing is built',
                  'baseline_off_cmd': '/verif/tools/baseline.py /repo', 'source_commits': hooks_commits, 'add_only': True},
        'engines': [
            {'name': 'E1 enum', 'path': 'vf/runner.py', 'serves_properties': [i for i in ids if CHECKS.get(i, {}).get('engine', '').startswith('E1')],
             'kind_free_text': 'bounded-exhaustive enumeration of (program, input, configuration) on the real code against reference models'},
            {'name': 'E2 sched', 'path': 'vf/sched.py', 'serves_properties': [i for i in ids if CHECKS.get(i, {}).get('engine', '').startswith('E2')],
             'kind_free_text': 'stateless exploration of thread interleavings under a controlled scheduler with iterative preemption bounding'},
            {'name': 'E3 spec', 'path': 'vf/mc', 'serves_properties': [i for i in ids if CHECKS.get(i, {}).get('engine', '').startswith('E3')],
             'kind_free_text': 'explicit-state model (TLA+/TLC or BFS over operation histories) bound to the code by replaying every behaviour'},
        ],
        'checks': checks,
        'not_applicable': na,
        'notes': 'Model-checking family; see DESIGN.md. Exit 0 held, 1 violation (VIOLATION line), 2 machinery error.',
    }
    with open(os.path.join(VERIF, 'MANIFEST.json'), 'w') as f:
        json.dump(m, f, indent=1)
    r = subprocess.run(['python3-vt', '-c', 'import json,jsonschema;jsonschema.validate(json.load(open("%s/MANIFEST.json")),json.load(open("/root/.vp/MANIFEST.schema.json")));print("MANIFEST valid: %d checks, %d not_applicable")' % (VERIF, len(checks), len(na))])
    sys.exit(r.returncode)
main()
