#!/venv/bin/python
"""agg.py <ID> <fields> [regex]: aggregate signatures of last run by the given |-separated field indexes (e.g. 1,2,4,-1)"""
import json, sys, re, collections
d = json.load(open('/verif/scratch/%s.violations.json' % sys.argv[1]))
idx = [int(x) for x in sys.argv[2].split(',')]
rx = re.compile(sys.argv[3]) if len(sys.argv) > 3 else None
c = collections.Counter(); ex = {}
for s, v in d.items():
    if rx and not rx.search(s): continue
    p = s.split('|')
    k = tuple(p[i] if -len(p) <= i < len(p) else '' for i in idx)
    c[k] += v['count']; ex.setdefault(k, s)
for k, v in sorted(c.items(), key=str): print(v, k)
print(len(c), 'groups')
