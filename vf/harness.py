"""Per-(program, configuration) harness: builds fresh Spyne classes, the application, the server, the published
schema and the reference codec; runs one call and reports what reached the function and what came back."""
from vf import spec, drv, tagged
from vf.ref import xsdcodec


def make_proto(name, validator=None, **kw):
    if name == 'xml':
        from spyne.protocol.xml import XmlDocument
        return XmlDocument(validator=validator, **kw)
    if name == 'soap11':
        from spyne.protocol.soap import Soap11
        return Soap11(validator=validator, **kw)
    if name == 'soap12':
        from spyne.protocol.soap import Soap12
        return Soap12(validator=validator, **kw)
    if name == 'json':
        from spyne.protocol.json import JsonDocument
        return JsonDocument(validator=validator, **kw)
    if name == 'yaml':
        from spyne.protocol.yaml import YamlDocument
        return YamlDocument(validator=validator, **kw)
    if name == 'msgpack':
        from spyne.protocol.msgpack import MessagePackDocument
        return MessagePackDocument(validator=validator, **kw)
    if name == 'msgpackrpc':
        from spyne.protocol.msgpack import MessagePackRpc
        return MessagePackRpc(validator=validator, **kw)
    if name == 'http':
        from spyne.protocol.http import HttpRpc
        return HttpRpc(validator=validator, **kw)
    raise ValueError(name)


class XmlHarness(object):
    def __init__(self, program, proto, validator=None, in_kw=None, out_kw=None, built=None):
        self.program = program
        self.proto = proto
        self.validator = validator
        self.b = built or spec.build(program)
        self.app = spec.make_app(self.b, make_proto(proto, validator, **(in_kw or {})), make_proto(proto, **(out_kw or {})))
        self.srv = drv.make_server(self.app)
        self.docs = drv.published_schema_docs(self.app)
        self.schema = xsdcodec.Schema(self.docs)
        self.codec = xsdcodec.Codec(self.schema, self.b)
        self._lxml_schema = None

    def lxml_schema(self):
        """independent compilation of the published schema documents (by lxml, from the serialised bytes)"""
        if self._lxml_schema is None:
            from lxml import etree
            import os, tempfile, shutil
            d = tempfile.mkdtemp(prefix='vfxsd')
            try:
                roots = [etree.fromstring(x) for x in self.docs]
                names = {}
                for i, r in enumerate(roots):
                    names[r.get('targetNamespace')] = 'd%d.xsd' % i
                for r in roots:
                    for imp in r.findall('{%s}import' % xsdcodec.XS):
                        if imp.get('namespace') in names and imp.get('schemaLocation') is None:
                            imp.set('schemaLocation', names[imp.get('namespace')])
                for r in roots:
                    with open(os.path.join(d, names[r.get('targetNamespace')]), 'wb') as f:
                        f.write(etree.tostring(r))
                main = os.path.join(d, names[self.b.tns])
                self._lxml_schema = etree.XMLSchema(etree.parse(main))
            finally:
                shutil.rmtree(d, ignore_errors=True)
        return self._lxml_schema

    def natives(self, m, ret):
        rt = m.get('ret')
        if rt is None:
            return None
        if isinstance(rt[0], list):
            return [spec.to_native(self.b, t, v) for t, v in zip(rt, ret)]
        return spec.to_native(self.b, rt, ret)

    def call_raw(self, mname, data, ret=None, out_header=None, script=None):
        b = self.b
        m = b.methods[mname]
        b.rec.reset()
        if script is not None:
            b.rec.script[mname] = script
        else:
            b.rec.script[mname] = ('ret', self.natives(m, ret))
        if out_header:
            hs = [spec.to_native(b, ['c', h, {}], out_header.get(h)) for h in m.get('out_header', [])]
            b.rec.script[('out_header', mname)] = hs[0] if len(hs) == 1 else hs
        o = drv.call_server(self.srv, data)
        return o

    def captured(self, mname):
        """reference-form arguments of each invocation: [(args list, header dict)]"""
        b = self.b
        m = b.methods[mname]
        out = []
        for name, args, hdr in b.rec.calls:
            if name != mname:
                out.append((name, None, None))
                continue
            ref = [spec.from_native(b, a[1], x) for a, x in zip(m.get('args', []), args)]
            hv = None
            if m.get('in_header'):
                hs = hdr if isinstance(hdr, (list, tuple)) else [hdr]
                hv = {}
                for hn, hx in zip(m['in_header'], hs):
                    hv[hn] = spec.from_native(b, ['c', hn, {}], hx)
            out.append((name, ref, hv))
        return out


class DictHarness(object):
    """JSON / YAML / MessagePack / MessagePackRpc harness around the real ServerBase pipeline."""

    def __init__(self, program, wire, validator=None, ignore_wrappers=True, complex_as='dict', polymorphic=False,
                 text_keys=True, built=None):
        from vf.ref import dictcodec
        self.program = program
        self.wire = wire
        self.validator = validator
        self.cfg = dict(wire=wire, validator=validator, ignore_wrappers=ignore_wrappers, complex_as=complex_as,
                        polymorphic=polymorphic, text_keys=text_keys)
        self.b = built or spec.build(program)
        kw = dict(ignore_wrappers=ignore_wrappers, complex_as={'dict': dict, 'list': list}[complex_as])
        if polymorphic:
            kw['polymorphic'] = True
        self.app = spec.make_app(self.b, make_proto(wire, validator, **kw), make_proto(wire, **kw))
        self.srv = drv.make_server(self.app)
        self.codec = dictcodec.DictCodec(self.b, wire, ignore_wrappers, complex_as, polymorphic, text_keys)

    natives = XmlHarness.natives
    call_raw = XmlHarness.call_raw
    captured = XmlHarness.captured

    @property
    def label(self):
        c = self.cfg
        return '%s,iw=%s,%s%s' % (c['wire'], 'T' if c['ignore_wrappers'] else 'F', c['complex_as'],
                                  '' if c['text_keys'] else ',binkeys')


class HttpHarness(object):
    """HttpRpc through the real WsgiApplication (GET with a query string)."""

    def __init__(self, program, validator=None, hier_delim='.', strict_arrays=False, out='http', built=None,
                 wsgi_kw=None):
        from spyne.server.wsgi import WsgiApplication
        self.program = program
        self.validator = validator
        self.cfg = dict(validator=validator, hier_delim=hier_delim, strict_arrays=strict_arrays, out=out)
        self.b = built or spec.build(program)
        inp = make_proto('http', validator, hier_delim=hier_delim, strict_arrays=strict_arrays)
        outp = make_proto('http') if out == 'http' else make_proto(out)
        self.app = spec.make_app(self.b, inp, outp)
        self.wsgi = WsgiApplication(self.app, **(wsgi_kw or {}))

    natives = XmlHarness.natives
    captured = XmlHarness.captured

    @property
    def label(self):
        return 'http,delim=%s%s' % (self.cfg['hier_delim'], ',strict' if self.cfg['strict_arrays'] else '')

    def get(self, mname, query, ret=None, script=None, headers=None, out_header=None):
        b = self.b
        m = b.methods[mname]
        b.rec.reset()
        b.rec.script[mname] = script if script is not None else ('ret', self.natives(m, ret))
        if out_header:
            hs = [spec.to_native(b, ['c', h, {}], out_header.get(h)) for h in m.get('out_header', [])]
            b.rec.script[('out_header', mname)] = hs[0] if len(hs) == 1 else hs
        env = drv.environ('GET', '/' + mname, query, b'', content_type=None, content_length=None, headers=headers)
        return drv.call_wsgi(self.wsgi, env)
