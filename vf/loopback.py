"""Loopback Spyne client: Spyne's own client-side code (RemoteProcedureBase) with a transport that hands the
request bytes to a function and takes the response bytes from it."""


def make_client(app, send):
    """send(request_bytes) -> response_bytes.  Returns an object whose .service.<method>(*args) calls through."""
    from spyne.client import RemoteService, ClientBase, RemoteProcedureBase

    class _Proc(RemoteProcedureBase):
        def __call__(self, *args, **kwargs):
            self.ctx, = self.contexts
            self.get_out_object(self.ctx, args, kwargs)
            self.get_out_string(self.ctx)
            out = b''.join(self.ctx.out_string)
            client.last_request = out
            resp = send(out)
            client.last_response = resp
            self.ctx.in_string = [resp]
            self.get_in_object(self.ctx)
            client.last_ctx = self.ctx
            if self.ctx.in_error is not None:
                raise self.ctx.in_error
            return self.ctx.in_object

    class _Client(ClientBase):
        def __init__(self):
            ClientBase.__init__(self, 'loopback://', app)
            self.service = RemoteService(_Proc, 'loopback://', app)
            self.last_request = self.last_response = self.last_ctx = None

    client = _Client()
    return client
