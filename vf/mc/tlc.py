"""Run TLC on a specification under /verif/tla, dump the reachable states and parse them.
Terminal states carry the whole behaviour in history variables, so one terminal state = one behaviour."""
import os
import re
import shutil
import subprocess
import tempfile

VERIF = os.path.dirname(os.path.dirname(os.path.dirname(os.path.abspath(__file__))))


class TlcError(Exception):
    pass


def parse_value(s):
    """parse a TLA+ value printed by TLC: strings, numbers, booleans, sequences <<..>>, sets {..}"""
    s = s.strip()
    pos = [0]

    def ws():
        while pos[0] < len(s) and s[pos[0]] in ' \n\t':
            pos[0] += 1

    def val():
        ws()
        c = s[pos[0]]
        if c == '"':
            j = pos[0] + 1
            out = []
            while s[j] != '"':
                if s[j] == '\\':
                    j += 1
                out.append(s[j])
                j += 1
            pos[0] = j + 1
            return ''.join(out)
        if s.startswith('<<', pos[0]):
            pos[0] += 2
            items = []
            ws()
            while not s.startswith('>>', pos[0]):
                items.append(val())
                ws()
                if s[pos[0]] == ',':
                    pos[0] += 1
                ws()
            pos[0] += 2
            return items
        if c == '{':
            pos[0] += 1
            items = []
            ws()
            while s[pos[0]] != '}':
                items.append(val())
                ws()
                if s[pos[0]] == ',':
                    pos[0] += 1
                ws()
            pos[0] += 1
            return set(items) if all(not isinstance(i, list) for i in items) else items
        m = re.match(r'-?[0-9]+', s[pos[0]:])
        if m:
            pos[0] += len(m.group(0))
            return int(m.group(0))
        m = re.match(r'TRUE|FALSE', s[pos[0]:])
        if m:
            pos[0] += len(m.group(0))
            return m.group(0) == 'TRUE'
        raise TlcError('cannot parse TLA+ value at %r' % s[pos[0]:pos[0] + 40])
    return val()


def run(spec, cfg=None, constants=None, workers=4, timeout=900):
    """-> dict(states=[{var: value}], distinct=int, generated=int, stdout=str, cmd=str)"""
    tla_dir = os.path.join(VERIF, 'tla')
    work = tempfile.mkdtemp(prefix='vftlc')
    try:
        shutil.copy(os.path.join(tla_dir, spec + '.tla'), work)
        cfg_text = open(os.path.join(tla_dir, (cfg or spec) + '.cfg')).read()
        if constants:
            cfg_text += '\nCONSTANTS\n' + '\n'.join('  %s = %s' % kv for kv in constants.items()) + '\n'
        with open(os.path.join(work, spec + '.cfg'), 'w') as f:
            f.write(cfg_text)
        dump = os.path.join(work, 'dump')
        cmd = ['tlc', '-workers', str(workers), '-noGenerateSpecTE', '-deadlock', '-metadir', os.path.join(work, 'meta'),
               '-dump', dump, spec]
        p = subprocess.run(cmd, cwd=work, stdout=subprocess.PIPE, stderr=subprocess.STDOUT, text=True, timeout=timeout)
        out = p.stdout
        if 'Model checking completed. No error has been found.' not in out:
            raise TlcError('TLC did not complete cleanly:\n' + out[-3000:])
        m = re.search(r'([0-9]+) states generated, ([0-9]+) distinct states found', out)
        generated, distinct = (int(m.group(1)), int(m.group(2))) if m else (0, 0)
        states = []
        path = dump + '.dump' if os.path.exists(dump + '.dump') else dump
        cur = None
        with open(path) as f:
            for line in f:
                if line.startswith('State '):
                    if cur:
                        states.append(cur)
                    cur = []
                elif cur is not None and line.strip():
                    cur.append(line.rstrip('\n'))
        if cur:
            states.append(cur)
        parsed = []
        for lines in states:
            text = '\n'.join(lines)
            d = {}
            for part in re.split(r'(?:^|\n)/\\ ', text):
                part = part.strip()
                if not part:
                    continue
                name, _, value = part.partition(' = ')
                d[name.strip()] = value.strip()
            parsed.append(d)
        return {'states': parsed, 'distinct': distinct, 'generated': generated, 'stdout': out, 'cmd': ' '.join(cmd[:-1] + [spec + '.tla'])}
    finally:
        shutil.rmtree(work, ignore_errors=True)
