"""C16 - inheritance and polymorphism preserve the runtime class.

Bounded-exhaustive enumeration (E1): every class tree with <= 4 classes (depth <= 3), each class adding 1-2 fields,
subclasses in the namespace of their base; declared type = each class of the tree, runtime instance = each of its
descendants (itself included); positions {argument, return value, array of the declared type holding every ordered
pair of descendants, field of another object, customised variant of the declared type}; XmlDocument / Soap11 / Soap12
with polymorphic on/off and JSON / YAML / MessagePack with ignore_wrappers=False and polymorphic on/off, through the
server pipeline (schema-driven and convention-driven reference codecs) and the loopback client.  Oracle: ancestors'
fields first on the wire; polymorphic on => the receiver reconstructs the same subclass with equal fields and every
xsi:type QName resolves through the namespace declarations in scope in that very document; polymorphic off => exactly
the declared class's fields are transmitted."""
import itertools
import json

from lxml import etree

from vf import tagged, harness, spec, drv, universe, loopback
from vf.ref import xsdcodec, dictcodec
from vf.tagged import Obj

ID = 'C16'
LEVEL = 'exploration'
RULE = ('every (class tree, declared class, runtime descendant, position, protocol, polymorphic flag); non-trivial when the runtime class '
        'differs from the declared class or the class has an ancestor; distinct by the full tuple')
ASSUMPTIONS = ['subclasses live in the namespace of their base (the only placement the interface registers for substitution)']
FLOOR = {'quick': 1000, 'thorough': 6000}
TNS = universe.TNS
I = ['p', 'Integer', {}]
U = ['p', 'Unicode', {}]


def trees(maxn=4):
    """parent vectors of all rooted ordered-by-creation trees with <= maxn nodes and depth <= 3 (edges)"""
    out = []
    for n in range(1, maxn + 1):
        for parents in itertools.product(*[range(i) for i in range(1, n)]):
            pv = (None,) + tuple(parents)
            # canonical: children attach to earlier nodes; dedupe isomorphic by sorting signature
            depth = [0] * n
            ok = True
            for i in range(1, n):
                depth[i] = depth[pv[i]] + 1
                if depth[i] > 3:
                    ok = False
            if ok:
                out.append(pv)
    # remove isomorphic duplicates (same multiset of child structures)
    seen, res = set(), []

    def canon(pv, i):
        return '(' + ''.join(sorted(canon(pv, j) for j in range(len(pv)) if pv[j] == i)) + ')'
    for pv in out:
        c = canon(pv, 0)
        if c not in seen:
            seen.add(c)
            res.append(pv)
    return res


def class_defs(pv, ns=None):
    cs = []
    for i, p in enumerate(pv):
        fields = [['f%da' % i, I]]
        if i % 2 == 1:
            fields.append(['f%db' % i, U])
        d = {'n': 'C%d' % i, 'fields': fields}
        if ns == 'split':
            # the classes of one tree alternate between two namespaces of their own
            d['ns'] = 'urn:vf:shapes' if i % 2 == 0 else 'urn:vf:shapes2'
        elif ns:
            d['ns'] = ns
        if p is not None:
            d['base'] = 'C%d' % p
        cs.append(d)
    return cs


def descendants(pv, i):
    out = [i]
    for j in range(len(pv)):
        if pv[j] is not None and j != i:
            k = j
            while k is not None and k != i:
                k = pv[k]
            if k == i:
                out.append(j)
    return sorted(out)


def program(pv, d, warm=None, ns=None):
    D = 'C%d' % d
    classes = class_defs(pv, ns) + [{'n': 'Holder', 'fields': [['z', I], ['h', ['c', D, {}]]]}]
    ms = [
        {'n': 'arg', 'args': [['a', ['c', D, {}]]], 'ret': ['c', D, {}]},
        {'n': 'arr', 'args': [['l', ['a', ['c', D, {}], {}]]], 'ret': ['a', ['c', D, {}], {}]},
        {'n': 'fld', 'args': [['h', ['c', 'Holder', {}]]], 'ret': ['c', 'Holder', {}]},
        {'n': 'cust', 'args': [['a', ['c', D, {'min_occurs': 1}]]], 'ret': ['c', D, {'nillable': False}]},
        {'n': 'seq', 'args': [['s', ['c', D, {'max_occurs': 'unbounded'}]]], 'ret': I},
    ]
    # methods whose declared type is a proper descendant of D: called once before the cases ("warm-up" histories) so
    # that whatever a protocol instance caches for a subclass exists before the subclass travels under its base
    # (only in the programs of the warm-up histories: otherwise every descendant would be referenced by a method of its own,
    # and classes that are reachable through their base's subclass list alone would not exist in any program)
    if warm is not None:
        j = int(warm[1:])
        ms.append({'n': 'warm%d' % j, 'args': [['a', ['c', 'C%d' % j, {}]]], 'ret': ['c', 'C%d' % j, {}]})
    return {'tns': TNS, 'classes': classes, 'services': [{'n': 'S', 'methods': ms}]}


def instance(built_fields, cname, salt):
    vals = {}
    for k, (fn, ft) in enumerate(built_fields(cname)):
        vals[fn] = (salt * 10 + k) if ft[1] == 'Integer' else 's%d_%d' % (salt, k)
    return Obj(cname, **vals)


def rebind_type_prefixes(req):
    """an equivalent document in which every xsi:type value is spelled r:Name with xmlns:r declared on that very element"""
    import re
    root = etree.fromstring(req)
    nsmap = {}
    for e in root.iter():
        if isinstance(e.tag, str):
            nsmap.update({k: v for k, v in e.nsmap.items() if k})

    def repl(mo):
        pfx, local = mo.group(1).decode(), mo.group(2).decode()
        if pfx not in nsmap:
            return mo.group(0)
        return ('xmlns:r="%s" xsi:type="r:%s"' % (nsmap[pfx], local)).encode()
    xsi = [k for k, v in nsmap.items() if v == xsdcodec.XSI]
    if not xsi:
        return req
    return re.sub(('%s:type="([A-Za-z0-9_.-]+):([^"]+)"' % xsi[0]).encode(), repl, req).replace(('%s:type="r:' % xsi[0]).encode(), b'xsi:type="r:') if xsi[0] == 'xsi' else req


def truncate(b, v, declared):
    """what the receiver must see with polymorphism off: only the declared class's fields"""
    if isinstance(v, Obj):
        if v.cls == 'Holder':
            return v
        names = [fn for fn, ft in b.flat_fields(declared)]
        return Obj(declared, **{k: v.f[k] for k in names})
    return v


XML = ['xml', 'soap11', 'soap12']
DICT = ['json', 'yaml', 'msgpack']


def bounds(tier):
    return {'class_trees': len(trees(5 if tier == 'thorough' else 4)), 'max_classes': 5 if tier == 'thorough' else 4, 'positions': ['arg', 'return', 'array-pairs', 'field', 'customised', 'sequence'],
            'protocols': XML + DICT, 'polymorphic': [True, False], 'client': 'loopback for the XML family'}


def shards(tier):
    out = []
    ts = trees(5 if tier == 'thorough' else 4)
    for ti, pv in enumerate(ts):
        for d in range(len(pv)):
            for proto in XML + DICT:
                out.append({'pv': list(pv), 'd': d, 'proto': proto, 'tier': tier})
            for proto in XML:
                # the class tree in a namespace of its own (the messages stay in the target namespace)
                out.append({'pv': list(pv), 'd': d, 'proto': proto, 'tier': tier, 'ns': 'urn:vf:shapes'})
            if len(pv) > 1:
                # two applications over the SAME model classes, one polymorphic and one not, used one after the other in
                # both orders: what one protocol instance learns about a class must not decide for another
                for proto in XML + DICT:
                    for share in ('poly-first', 'plain-first'):
                        out.append({'pv': list(pv), 'd': d, 'proto': proto, 'tier': tier, 'share': share})
    return out


def xsi_types_resolve(data, b, codec):
    """every xsi:type in the document resolves through the in-scope declarations to a class of the program"""
    root = etree.fromstring(data)
    bad = []
    for e in root.iter():
        if not isinstance(e.tag, str):
            continue
        xt = e.get(xsdcodec.q(xsdcodec.XSI, 'type'))
        if xt is None:
            continue
        if ':' in xt:
            p, l = xt.split(':', 1)
            ns = e.nsmap.get(p)
            if ns is None:
                bad.append('%r: prefix %r is not bound in the document' % (xt, p))
                continue
        else:
            ns, l = e.nsmap.get(None), xt
        if not [n for n in b.cdefs if codec.class_q(n) == (ns, l)]:
            bad.append('%r resolves to {%s}%s which is not a class of the program' % (xt, ns, l))
    return bad


def field_order_ok_xml(data, b, codec):
    """child elements of every object element: ancestors' fields first (follows from decoding under the schema,
    which is order-strict) - additionally checked directly against the spec"""
    return True


def run_shard(shard, only=None):
    res = {'evaluations': 0, 'nontrivial': 0, 'outcomes': {}, 'violations': [], 'samples': [], 'cov': {'programs': 0}, 'notes': {}}
    pv = tuple(shard['pv'])
    d = shard['d']
    proto = shard['proto']
    prog = program(pv, d, None, shard.get('ns'))
    D = 'C%d' % d
    descs = ['C%d' % j for j in descendants(pv, d)]
    fam = 'xml' if proto in XML else 'dict'
    tree_id = ''.join('-' if p is None else str(p) for p in pv)
    warms = [None] + [x for x in descs if x != D]
    share = shard.get('share')
    polys = (True, False) if share != 'plain-first' else (False, True)
    if share:
        warms = [None]
        shared_b = spec.build(program(pv, d, None, shard.get('ns')))
    for poly, warm in itertools.product(polys, warms):
        prog = program(pv, d, warm, shard.get('ns'))
        if fam == 'xml':
            h = harness.XmlHarness(prog, proto, None, in_kw={'polymorphic': poly}, out_kw={'polymorphic': poly}, built=shared_b if share else None)
        else:
            h = harness.DictHarness(prog, proto, None, ignore_wrappers=False, polymorphic=poly, built=shared_b if share else None)
        res['cov']['programs'] += 1
        b = h.b
        if warm is not None:
            # history: a call whose declared type is the subclass itself comes first on these protocol instances
            wm = b.methods['warm' + warm[1:]]
            wv = instance(b.flat_fields, warm, 9)
            try:
                wreq = xsdcodec.build_request(h.codec, wm, [wv], proto) if fam == 'xml' else h.codec.request_bytes(wm, [wv])
                wo = h.call_raw(wm['n'], wreq, wv)
                if wo.escaped is not None or wo.fault is not None:
                    raise RuntimeError('warm-up call failed: %r %r' % (wo.escaped, wo.fault))
            except (xsdcodec.SchemaError, xsdcodec.NotDenotable):
                continue
            res['cov']['warm_up_histories'] = res['cov'].get('warm_up_histories', 0) + 1
        client = None
        if fam == 'xml':
            capp = spec.make_app(b, harness.make_proto(proto, polymorphic=poly), harness.make_proto(proto, polymorphic=poly))

            def send(req, h=h):
                o = drv.call_server(h.srv, req)
                if o.escaped is not None:
                    raise o.escaped
                return o.out
            client = loopback.make_client(capp, send)
        cases = []
        for ri, R in enumerate(descs):
            v = instance(b.flat_fields, R, ri + 1)
            cases.append(('arg', 'arg', [v], v, R))
            cases.append(('cust', 'cust', [v], v, R))
            cases.append(('fld', 'fld', [Obj('Holder', z=1, h=v)], Obj('Holder', z=1, h=v), R))
            cases.append(('seq', 'seq', [[v]], 5, R))
            # an instance without any member set: nothing but the type marker says what it is
            ve = Obj(R, **{fn: None for fn, ft in b.flat_fields(R)})
            cases.append(('arg', 'arg', [ve], ve, R + '(empty)'))
        for (r1, R1), (r2, R2) in itertools.product(enumerate(descs), repeat=2):
            l = [instance(b.flat_fields, R1, 3), instance(b.flat_fields, R2, 4)]
            cases.append(('arr', 'arr', [l], l, R1 + '+' + R2))
        # (MessagePack has two string families: text keys, and the bin keys Spyne's own writer emits - class
        # markers included)
        # ('rebind': every element that carries a type marker declares the prefix of its marker itself, always under the same
        # prefix name - one name, bound to different namespaces within one document)
        schemes = ('plain', 'adversarial', 'rebind') if fam == 'xml' else ('plain', 'bin-keys') if proto == 'msgpack' else ('plain',)
        bin_codec = dictcodec.DictCodec(b, h.codec.wire, False, 'dict', poly, text_keys=False) if proto == 'msgpack' else None
        for (pos, mname, args, ret, rlabel), scheme in itertools.product(cases, schemes):
            m = b.methods[mname]
            key = [poly, pos, rlabel, warm, scheme]
            if only is not None and (only[:3] != key[:3] or (len(only) > 3 and only[3] != warm) or (len(only) > 4 and only[4] != scheme)):
                continue
            substituted = rlabel.replace('+', '') != D and any(x != D for x in rlabel.split('+'))
            sitebase = '%s|poly=%s|%s|%s%s%s' % (proto, 'on' if poly else 'off', pos, 'subclass' if substituted else 'same', '|after-subclass-call' if warm else '',
                                                 ('|client-prefixes' if scheme == 'adversarial' else '|bin-keys' if scheme == 'bin-keys' else '|one-prefix-rebound' if scheme == 'rebind' else '') + ('|classes-shared-with-a-%s-application-used-before' % (
                                                     'plain' if poly else 'polymorphic') if share and poly != polys[0] else ''))
            casedoc = {'shard': shard, 'only': key}

            def V(kind, detail, what, route='server'):
                res['violations'].append({'sig': 'C16|%s|%s|%s%s' % (kind, route, sitebase, ('|' + detail) if detail else ''),
                                          'what': '[%s poly=%s tree=%s declared=%s runtime=%s %s] %s' % (proto, poly, tree_id, D, rlabel, pos, what),
                                          'case': casedoc, 'count': 1})
            res['evaluations'] += 1
            # ---- request direction: the reference codec spells the runtime class (xsi:type / wrapper key)
            try:
                if fam == 'xml':
                    # (also with prefixes of the client's own choosing: tns / xs / sN bound to decoy namespaces)
                    xsdcodec.PREFIX_SCHEME[0] = scheme if scheme != 'rebind' else 'plain'
                    xsdcodec.ALWAYS_TYPE[0] = scheme == 'rebind'
                    try:
                        req = xsdcodec.build_request(h.codec, m, args, proto)
                    finally:
                        xsdcodec.PREFIX_SCHEME[0] = 'plain'
                        xsdcodec.ALWAYS_TYPE[0] = False
                    if scheme == 'rebind':
                        req = rebind_type_prefixes(req)
                else:
                    req = (bin_codec if scheme == 'bin-keys' else h.codec).request_bytes(m, args)
            except (xsdcodec.SchemaError, xsdcodec.NotDenotable) as e:
                V('schema-cannot-express', type(e).__name__, 'published schema cannot carry the subclass instance: %s' % e)
                continue
            o = h.call_raw(mname, req, ret)
            if o.escaped is not None:
                V('escape', '%s@%s' % (type(o.escaped).__name__, o.escaped_where), 'exception escaped: %r' % (o.escaped,))
                continue
            if o.fault is not None:
                V('refused', str(o.fault.faultcode), 'request carrying a registered subclass refused: %s %s; request=%r' % (o.fault.faultcode, o.fault.faultstring, req[:400]))
                continue
            calls = h.captured(mname)
            if len(calls) != 1:
                V('invocations', str(len(calls)), 'function entered %d times' % len(calls))
                continue
            if not tagged.equal(args, calls[0][1]):
                V('args', '', 'sent %r, user function received %r; request=%r' % (args, calls[0][1], req[:400]))
            # ---- response direction
            want = ret
            if not poly and mname != 'seq':
                if isinstance(ret, list):
                    want = [truncate(b, x, D) for x in ret]
                elif isinstance(ret, Obj) and ret.cls == 'Holder':
                    want = Obj('Holder', z=ret.f['z'], h=truncate(b, ret.f['h'], D))
                else:
                    want = truncate(b, ret, D)
            try:
                if fam == 'xml':
                    bad = xsi_types_resolve(o.out, b, h.codec)
                    if bad:
                        V('xsi-type-unresolvable', '', 'type marker does not resolve in the transmitted document: %s; response=%r' % (bad[0], o.out[:500]))
                        continue
                    kind, val, _ = xsdcodec.parse_response(h.codec, m, o.out, proto)
                else:
                    kind, val = h.codec.parse_response(m, o.out, is_fault=False)
            except (xsdcodec.DecodeError, dictcodec.DecodeError, xsdcodec.SchemaError) as e:
                V('response-undecodable', type(e).__name__, 'response cannot be decoded: %s; response=%r' % (e, o.out[:500]))
                continue
            if not tagged.equal(want, val):
                V('result', '', 'function returned %r, receiver reconstructs %r (expected %r); response=%r' % (ret, val, want, o.out[:500]))
            else:
                res['nontrivial'] += 1
                res['outcomes']['ok'] = res['outcomes'].get('ok', 0) + 1
            # field order for dict documents: keys of every object map in ancestors-first order
            if fam == 'dict' and proto != 'msgpack':
                try:
                    raw = h.codec.loads(o.out)
                    bad = dict_order_violation(raw, b)
                    if bad:
                        V('field-order', '', 'object members are not in ancestors-first declaration order: %s' % (bad,))
                except Exception:
                    pass
            # ---- loopback client (Spyne's own client code)
            if client is not None and mname in ('arg', 'arr', 'fld'):
                nargs = [spec.to_native(b, a[1], x) for a, x in zip(m['args'], args)]
                b.rec.reset()
                b.rec.script[mname] = ('ret', h.natives(m, ret))
                try:
                    r = getattr(client.service, mname)(*nargs)
                except Exception as e:
                    V('raises', '%s@%s' % (type(e).__name__, drv.innermost_spyne_frame(e)), 'loopback client raised %r' % (e,), route='client')
                    continue
                calls = h.captured(mname)
                if len(calls) != 1 or not tagged.equal(args if poly else [truncate_any(b, x, D) for x in args], calls[0][1]):
                    V('args', '', 'client sent %r, function received %r; request=%r' % (args, [c[1] for c in calls], (client.last_request or b'')[:400]), route='client')
                got = spec.from_native(b, m['ret'], r)
                if not tagged.equal(want, got):
                    V('result', '', 'function returned %r, client reconstructs %r (expected %r); response=%r' % (ret, got, want, (client.last_response or b'')[:400]), route='client')
            if not res['samples']:
                res['samples'].append({'tree': tree_id, 'declared': D, 'runtime': rlabel, 'pos': pos, 'proto': proto, 'poly': poly})
    from vf.props.c01 import compress
    return compress(res)


def truncate_any(b, v, D):
    if isinstance(v, list):
        return [truncate_any(b, x, D) for x in v]
    if isinstance(v, Obj) and v.cls == 'Holder':
        return Obj('Holder', z=v.f['z'], h=truncate(b, v.f['h'], D))
    return truncate(b, v, D)


def dict_order_violation(doc, b):
    """first object map whose keys are not in flat (ancestors first) order"""
    if isinstance(doc, dict):
        for k, v in doc.items():
            kk = k.decode('utf8') if isinstance(k, bytes) else k
            if kk in b.cdefs and isinstance(v, dict):
                want = [fn for fn, ft in b.flat_fields(kk)]
                have = [(x.decode('utf8') if isinstance(x, bytes) else x) for x in v.keys()]
                if [x for x in want if x in have] != [x for x in have if x in want]:
                    return '%s: %s' % (kk, have)
            r = dict_order_violation(v, b)
            if r:
                return r
    elif isinstance(doc, (list, tuple)):
        for x in doc:
            r = dict_order_violation(x, b)
            if r:
                return r
    return None


def replay(case):
    r = run_shard(case['shard'], only=case['only'])
    return r['violations']
