"""C18 - calling a method through NullServer behaves like calling it over the wire.

Bounded-exhaustive enumeration (E1), differential oracle: signatures from the level-A universe (atom x position, for
the body styles NullServer supports: wrapped, out_bare, empty, bare with the complex argument passed field-wise),
arities 0..3 with none / one / two / three return values, generator results, Ignored returns and raised faults; every
conformant argument value; each call made positionally, by keyword and mixed.  The value returned (or fault raised) by
server.service.<m>(...) must equal what the reference decoders obtain from the XmlDocument, Soap11 and JsonDocument
wire paths for the same call, and the user function must have seen the same arguments on all four paths."""
import datetime as _dt
import itertools
import json

from vf import tagged, harness, spec, drv, universe
from vf.ref import xsdcodec, dictcodec, validity
from vf.tagged import Obj
from vf.props import c01

ID = 'C18'
LEVEL = 'exploration'
RULE = ('every (signature, argument tuple, call style) through NullServer and through three wire paths; non-trivial when the call '
        'carried at least one non-None argument or return value; distinct by (program, value, call style)')
ASSUMPTIONS = ['the wire paths themselves are checked against independent codecs by C01/C02; here they are the differential reference']
FLOOR = {'quick': 1500, 'thorough': 12000}
TNS = universe.TNS
I = ['p', 'Integer', {}]
U = ['p', 'Unicode', {}]
Dt = ['p', 'Date', {}]
POSITIONS = ['arg', 'field', 'field2', 'array', 'seq', 'seq-arg', 'ret-multi', 'out_bare', 'bare']
WIRES = [('xml', 'xml'), ('xml', 'soap11'), ('dict', 'json')]


def arity_programs():
    out = []
    types = [I, U, Dt]
    vals = [7, 'text é', _dt.date(2020, 2, 29)]
    for na in range(0, 4):
        for nr in range(0, 4):
            args = [['a%d' % i, types[i % 3]] for i in range(na)]
            ret = None if nr == 0 else (types[0] if nr == 1 else [types[i % 3] for i in range(nr)])
            m = {'n': 'm', 'args': args, 'ret': ret}
            argv = [vals[i % 3] for i in range(na)]
            retv = None if nr == 0 else (vals[0] if nr == 1 else tuple(vals[i % 3] for i in range(nr)))
            out.append(('arity%d-%d' % (na, nr), {'tns': TNS, 'classes': [], 'services': [{'n': 'S', 'methods': [m]}]}, argv, retv))
    # the bare styles: out_bare with 0..3 arguments, bare with 0..1 (complex) argument; no / primitive / complex result
    P = {'n': 'P', 'fields': [['x', I], ['s', U]]}
    Pt = ['c', 'P', {}]
    pv = Obj('P', x=3, s='ess')
    for style in ('out_bare', 'bare'):
        for na in (range(0, 4) if style == 'out_bare' else range(0, 2)):
            for rname, rt, rv in (('none', None, None), ('prim', I, 7), ('text', U, 'text é'), ('complex', Pt, pv)):
                if style == 'bare':
                    args = [['a0', Pt]][:na]
                    argv = [pv][:na]
                else:
                    args = [['a%d' % i, types[i % 3]] for i in range(na)]
                    argv = [vals[i % 3] for i in range(na)]
                m = {'n': 'm', 'args': args, 'ret': rt, 'kw': {'_body_style': style}}
                out.append(('%s%d-%s' % (style, na, rname), {'tns': TNS, 'classes': [P], 'services': [{'n': 'S', 'methods': [m]}]}, argv, rv))
    return out


def bounds(tier):
    return {'atoms': len(universe.atoms()), 'positions': POSITIONS, 'arity_programs': len(arity_programs()), 'call_styles': ['positional', 'keyword', 'mixed'],
            'special': ['generator result', 'Ignored', 'Fault', 'non-Fault exception'],
            'header_histories': {'alphabet': HDR_OPS, 'depth': 5 if tier == 'thorough' else 4}, 'wire_paths': ['XmlDocument', 'Soap11', 'JsonDocument']}


def shards(tier):
    out = []
    for aid, at in universe.atoms(tier):
        if aid in universe.XML_ONLY_ATOMS:
            continue
        for pos in POSITIONS:
            if universe.program_for(at, pos) is None:
                continue
            out.append({'kind': 'A', 'atom': aid, 'pos': pos, 'tier': tier})
    out.append({'kind': 'arity', 'tier': tier})
    out.append({'kind': 'special', 'tier': tier})
    for first in range(len(HDR_OPS)):
        out.append({'kind': 'hdr', 'tier': tier, 'first': first, 'depth': 5 if tier == 'thorough' else 4})
    out.append({'kind': 'aux', 'tier': tier})
    out.append({'kind': 'two-apps', 'tier': tier})
    for first in range(len(ARG_OPS)):
        out.append({'kind': 'args', 'tier': tier, 'first': first, 'depth': 4 if tier == 'thorough' else 3})
    return out


# header histories on ONE NullServer: the in-header is state of the server object (set_options(soapheaders=...))
HDR_VALUES = {'A': ('H', {'hx': 1, 's': 'alice'}), 'B': ('H', {'hx': 2, 's': 'bob'}), 'none': None}
HDR_OPS = ['set:A', 'set:B', 'set:none', 'call:h1', 'call:h2']


def hdr_program():
    return {'tns': TNS, 'classes': [{'n': 'H', 'fields': [['hx', I], ['s', U]]}],
            'services': [{'n': 'S', 'methods': [{'n': 'h1', 'args': [['n', I]], 'ret': U, 'in_header': ['H']},
                                                {'n': 'h2', 'args': [['n', I]], 'ret': U, 'in_header': ['H']}]}]}


def _hdr_fn(ctx, n):
    h = ctx.in_header
    if isinstance(h, (list, tuple)):
        h = h[0] if h else None
    return 'no-header' if h is None else '%s/%s/%s' % (h.hx, h.s, n)


def run_two_apps(shard, res, only=None):
    """two applications with the same target namespace publish a method of the same name with different signatures
    (parameters swapped, one parameter fewer, one more); keyword / positional calls through a NullServer of each, in every
    order of the applications: what was learnt about one application's method must not be used for another's"""
    import itertools
    from spyne.server.null import NullServer
    sigs = {'ab': [['a', I], ['b', I]], 'ba': [['b', I], ['a', I]], 'a': [['a', I]], 'abc': [['a', I], ['b', I], ['c', I]]}

    def fn(names):
        return lambda ctx, *args: ' '.join('%s=%s' % (n, v) for n, v in zip(names, args))
    quads = {}
    for k, args in sigs.items():
        q = Quad({'tns': TNS, 'classes': [], 'services': [{'n': 'S', 'methods': [{'n': 'pair', 'args': args, 'ret': U}]}]})
        quads[k] = q
        res['cov']['programs'] += 1
    for order in itertools.permutations(sorted(sigs), 2):
        key = ['two-apps', list(order)]
        if only is not None and only != key:
            continue
        res['evaluations'] += 1
        good = True
        for k in order + (order[0],):
            q = quads[k]
            names = [a[0] for a in sigs[k]]
            null = NullServer(q.napp, ostr=False)
            for style in ('keyword', 'positional'):
                vals = {n: i + 1 for i, n in enumerate(sorted(names))}
                q.b.rec.reset()
                q.b.rec.script['pair'] = ('call', fn(names))
                try:
                    got = null.service.pair(**vals) if style == 'keyword' else null.service.pair(*[vals[n] for n in names])
                except Exception as e:
                    got = 'raised %r' % (e,)
                want = ' '.join('%s=%s' % (n, vals[n]) for n in names)
                if got != want:
                    res['violations'].append({'sig': 'C18|two-applications|%s|%s' % (style, 'first' if k == order[0] else 'second'),
                                              'what': 'applications with pair%s and pair%s (same namespace), used in this order: a %s call of pair%s through NullServer gives %r, '
                                                      'the function must see %r' % (tuple(sigs[order[0]][i][0] for i in range(len(sigs[order[0]]))), tuple(a[0] for a in sigs[order[1]]),
                                                                                  style, tuple(names), got, want),
                                              'case': {'shard': shard, 'only': key}, 'count': 1})
                    good = False
        if good:
            res['nontrivial'] += 1
    res['cov']['application_pairs'] = res['evaluations']


def run_aux(shard, res, only=None):
    """a primary method with auxiliary methods of the same name (one before, one after the primary service in the service
    list): every combination of {succeeds, raises a Fault, raises another exception} for primary and auxiliaries"""
    import itertools
    from spyne.server.null import NullServer
    from spyne.model.fault import Fault
    prog = {'tns': TNS, 'classes': [], 'services': [
        {'n': 'A0', 'aux': True, 'methods': [{'n': 'ax', 'key': 'A0.ax', 'args': [['n', I]], 'ret': U}]},
        {'n': 'S', 'methods': [{'n': 'ax', 'key': 'S.ax', 'args': [['n', I]], 'ret': U}]},
        {'n': 'A1', 'aux': True, 'methods': [{'n': 'ax', 'key': 'A1.ax', 'args': [['n', I]], 'ret': U}]}]}
    q = Quad(prog)
    b = q.b
    res['cov']['programs'] += 1
    proto, h = [(p, x) for p, x in q.wires if p == 'soap11'][0]
    m = b.methods['S.ax']
    BEH = {'ok': lambda who: ('ret', 'from-' + who), 'fault': lambda who: ('raise', lambda: Fault('Server.' + who.replace('.', ''), 'down')),
           'crash': lambda who: ('raise', lambda: KeyError(who))}
    null = NullServer(q.napp, ostr=False)
    for combo in itertools.product(sorted(BEH), repeat=3):
        key = ['aux', list(combo)]
        if only is not None and only != key:
            continue
        scripts = {k: BEH[c](k) for k, c in zip(('A0.ax', 'S.ax', 'A1.ax'), combo)}
        res['evaluations'] += 1
        b.rec.reset()
        b.rec.script.update(scripts)
        o = h.call_raw('S.ax', xsdcodec.build_request(h.codec, m, [1], proto), script=scripts['S.ax'])
        b.rec.script.update(scripts)
        wire_ran = sorted(c[0] for c in b.rec.calls)
        if o.fault is not None:
            wire = ('fault', str(o.fault.faultcode))
        else:
            wire = ('ok', xsdcodec.parse_response(h.codec, m, o.out, proto)[1])
        b.rec.reset()
        b.rec.script.update(scripts)
        try:
            got = ('ok', null.service.ax(1))
        except Fault as f:
            got = ('fault', str(f.faultcode))
        except Exception as e:
            got = ('raised', repr(e))
        null_ran = sorted(c[0] for c in b.rec.calls)
        # (which auxiliary functions run when the primary one fails differs between NullServer and the wire on the pinned
        # tree; the property speaks of the result only, so only the result is compared)
        if got != wire:
            res['violations'].append({'sig': 'C18|auxiliary|primary-%s|%s' % (combo[1], 'result' if got != wire else 'functions-run'),
                                      'what': 'auxiliary before / primary / auxiliary after = %s: NullServer gives %r (ran %s), the wire gives %r (ran %s)' % (
                                          list(combo), got, null_ran, wire, wire_ran),
                                      'case': {'shard': shard, 'only': key}, 'count': 1})
        else:
            res['nontrivial'] += 1
    res['cov']['auxiliary_combinations'] = res['evaluations']


# argument histories on ONE NullServer: full, partial, keyword and faulting calls of one method in every order
ARG_OPS = [((1, 2), {}), ((3,), {}), ((-1, 7), {}), ((), {'b': 5}), ((), {}), ((4,), {'b': 6}), ((-2,), {})]


def arg_program():
    # (the second parameter declares a default: a call that leaves it out runs with the default, however it travels)
    return {'tns': TNS, 'classes': [], 'services': [{'n': 'S', 'methods': [{'n': 'pair', 'args': [['a', I], ['b', ['p', 'Integer', {'default': 9}]]], 'ret': U}]}]}


def _pair_fn(ctx, a, b):
    from spyne.model.fault import Fault
    if a is not None and a < 0:
        raise Fault('Client.Negative', 'a=%s b=%s' % (a, b))
    return 'a=%s b=%s' % (a, b)


def run_args(shard, res, only=None):
    """oracle: each call returns (or raises) what the same call gives over the wire (Soap11) on its own"""
    import itertools
    from spyne.server.null import NullServer
    from spyne.model.fault import Fault
    q = Quad(arg_program())
    b = q.b
    res['cov']['programs'] += 1
    proto, h = [(p, x) for p, x in q.wires if p == 'soap11'][0]
    script = ('call', _pair_fn)
    m = b.methods['pair']
    wire = {}
    for oi, (a, k) in enumerate(ARG_OPS):
        vals = [a[0] if len(a) > 0 else None, a[1] if len(a) > 1 else k.get('b')]
        o = h.call_raw('pair', xsdcodec.build_request(h.codec, m, vals, proto), script=script)
        if o.fault is not None:
            wire[oi] = ('fault', str(o.fault.faultcode), str(o.fault.faultstring))
        else:
            wire[oi] = ('ok', xsdcodec.parse_response(h.codec, m, o.out, proto)[1])
    for rest in itertools.product(range(len(ARG_OPS)), repeat=shard['depth'] - 1):
        hist = [shard['first']] + list(rest)
        key = ['args', hist]
        if only is not None and only != key:
            continue
        null = NullServer(q.napp, ostr=False)
        res['evaluations'] += 1
        good = True
        for step, oi in enumerate(hist):
            a, k = ARG_OPS[oi]
            b.rec.reset()
            b.rec.script['pair'] = script
            try:
                got = ('ok', null.service.pair(*a, **k))
            except Fault as f:
                got = ('fault', str(f.faultcode), str(f.faultstring))
            except Exception as e:
                got = ('raised', repr(e))
            if got != wire[oi]:
                res['violations'].append({'sig': 'C18|argument-history|%s' % ('first-call' if step == 0 else 'later-call'),
                                          'what': 'history %s on one NullServer: step %d pair(*%r, **%r) gives %r, the wire gives %r' % (
                                              [ARG_OPS[i] for i in hist], step, a, k, got, wire[oi]),
                                          'case': {'shard': shard, 'only': key}, 'count': 1})
                good = False
                break
        if good:
            res['nontrivial'] += 1
    res['cov']['argument_histories'] = res['evaluations']


def run_hdr(shard, res, only=None):
    """every history of {set header A / B / none, call h1, call h2} up to the depth on one NullServer; oracle: each call
    returns what the same call with the header current at that moment returns over the wire (Soap11, fresh request)"""
    q = Quad(hdr_program())
    b = q.b
    res['cov']['programs'] += 1
    proto, h = [(p, x) for p, x in q.wires if p == 'soap11'][0]
    script = ('call', _hdr_fn)
    wire = {}
    for mname in ('h1', 'h2'):
        for hk, hv in HDR_VALUES.items():
            hdr = None if hv is None else {'H': Obj(hv[0], **hv[1])}
            req = xsdcodec.build_request(h.codec, b.methods[mname], [7], proto, header=hdr)
            o = h.call_raw(mname, req, script=script)
            kind, val, _ = xsdcodec.parse_response(h.codec, b.methods[mname], o.out, proto)
            wire[(mname, hk)] = (kind, val)
    import itertools
    from spyne.server.null import NullServer
    for rest in itertools.product(range(len(HDR_OPS)), repeat=shard['depth'] - 1):
        hist = [HDR_OPS[shard['first']]] + [HDR_OPS[i] for i in rest]
        key = ['hdr', hist]
        if only is not None and only != key:
            continue
        null = NullServer(q.napp, ostr=False)
        cur = 'none'
        res['evaluations'] += 1
        seen_calls = 0
        for step, op in enumerate(hist):
            kind, arg = op.split(':')
            if kind == 'set':
                hv = HDR_VALUES[arg]
                null.set_options(soapheaders=None if hv is None else spec.to_native(b, ['c', 'H', {}], Obj(hv[0], **hv[1])))
                cur = arg
                continue
            b.rec.reset()
            b.rec.script[arg] = script
            try:
                r = getattr(null.service, arg)(7)
                got = ('ok', r)
            except Exception as e:
                got = ('raised', repr(e))
            seen_calls += 1
            if got != wire[(arg, cur)]:
                res['violations'].append({'sig': 'C18|header-history|%s' % ('first-call' if seen_calls == 1 else 'later-call'),
                                          'what': 'history %s on one NullServer: step %d (%s with header %s) gives %r, the wire gives %r' % (
                                              hist, step, op, cur, got, wire[(arg, cur)]),
                                          'case': {'shard': shard, 'only': key}, 'count': 1})
                break
        if seen_calls >= 2:
            res['nontrivial'] += 1
    res['cov']['header_histories'] = res['evaluations']


class Quad(object):
    """NullServer + three wire harnesses over one build"""

    def __init__(self, program):
        from spyne.server.null import NullServer
        self.b = spec.build(program)
        self.napp = spec.make_app(self.b, None, None)
        self.null = NullServer(self.napp, ostr=False)
        self.wires = []
        for fam, proto in WIRES:
            if fam == 'xml':
                self.wires.append((proto, harness.XmlHarness(program, proto, None, built=self.b)))
            else:
                self.wires.append((proto, harness.DictHarness(program, proto, None, built=self.b)))

    def wire_call(self, proto, h, mname, args, script, via='server'):
        m = self.b.methods[mname]
        if proto == 'json':
            req = h.codec.request_bytes(m, args)
        else:
            req = xsdcodec.build_request(h.codec, m, args, proto)
        if via == 'wsgi':
            from spyne.server.wsgi import WsgiApplication
            if not hasattr(h, '_wsgi'):
                h._wsgi = WsgiApplication(h.app)
            self.b.rec.reset()
            self.b.rec.script[mname] = script
            o = drv.call_wsgi(h._wsgi, drv.environ('POST', '/', '', req, content_type='application/json' if proto == 'json' else 'text/xml; charset=utf-8'))
            if o.escaped is None and not (o.status or '').startswith('2'):
                from vf.drv import Outcome
                try:
                    kind, val = (h.codec.parse_response(m, o.out, is_fault=True) if proto == 'json' else xsdcodec.parse_response(h.codec, m, o.out, proto)[:2])
                except Exception as e:
                    return ('fault', ('undecodable', repr(e)[:80])), h.captured(mname)
                return ('fault', (str(getattr(val, 'code', None)), str(getattr(val, 'string', None)))), h.captured(mname)
        else:
            o = h.call_raw(mname, req, script=script)
        calls = h.captured(mname)
        if o.escaped is not None:
            return ('escape', repr(o.escaped)), calls
        if o.fault is not None:
            return ('fault', (str(o.fault.faultcode), str(o.fault.faultstring))), calls
        try:
            if proto == 'json':
                kind, val = h.codec.parse_response(m, o.out, is_fault=False)
            else:
                kind, val, _ = xsdcodec.parse_response(h.codec, m, o.out, proto)
        except (xsdcodec.DecodeError, dictcodec.DecodeError) as e:
            if via == 'wsgi':
                return ('undecodable', '%s; status %s; body %r' % (e, o.status, (o.out or b'')[:120])), calls
            raise
        if kind != 'ok':
            return ('fault', (str(getattr(val, 'code', None)), str(getattr(val, 'string', None)))), calls
        return ('ok', val), calls

    def null_call(self, mname, args, kwargs, script):
        b = self.b
        m = b.methods[mname]
        b.rec.reset()
        b.rec.script[mname] = script
        from spyne.model.fault import Fault
        try:
            r = getattr(self.null.service, mname)(*args, **kwargs)
        except Fault as f:
            return ('fault', (str(f.faultcode), str(f.faultstring))), list(b.rec.calls)
        except Exception as e:
            return ('escape', repr(e)), list(b.rec.calls)
        return ('raw', r), list(b.rec.calls)


def native_args(b, m, args, style):
    """positional native arguments for NullServer; bare style passes the object's fields one by one"""
    if style == 'bare' and m.get('args'):
        an, at = m['args'][0]
        v = args[0]
        if v is None:
            return None
        return [spec.to_native(b, ft, v.f.get(fn)) for fn, ft in b.flat_fields(v.cls)], [fn for fn, ft in b.flat_fields(v.cls)]
    return [spec.to_native(b, a[1], x) for a, x in zip(m.get('args', []), args)], [a[0] for a in m.get('args', [])]


def ret_to_ref(b, m, r):
    rt = m.get('ret')
    if rt is None:
        return None
    if isinstance(rt[0], list):
        try:
            return tuple(spec.from_native(b, t, x) for t, x in zip(rt, r))
        except TypeError:
            return ('!not-a-sequence', repr(r)[:80])
    import inspect
    if inspect.isgenerator(r):
        r = list(r)
    return spec.from_native(b, rt, r)


def wire_equal(proto, wire, nval):
    """the JSON document of a None object is the empty map (with wrappers ignored the two cannot be told apart there)"""
    if proto == 'json':
        if nval is None and isinstance(wire, Obj) and all(x is None for x in wire.f.values()):
            return True
        if isinstance(wire, (list, tuple)) and isinstance(nval, (list, tuple)) and len(wire) == len(nval):
            return all(wire_equal(proto, w, n) for w, n in zip(wire, nval))
    return tagged.equal(wire, nval)


def one_case(q, mname, args, ret, res, site, casedoc, styles=('positional', 'keyword', 'mixed')):
    b = q.b
    m = b.methods[mname]
    style = xsdcodec.body_style(m)

    def V(kind, detail, what):
        res['violations'].append({'sig': 'C18|%s|%s%s' % (kind, site, ('|' + detail) if detail else ''), 'what': what, 'case': casedoc, 'count': 1})
    script = ('ret', XmlNatives(b, m, ret))
    # wire reference
    wire = {}
    for proto, h in q.wires:
        if proto == 'json' and style == 'bare':
            continue    # no documented dict convention for the bare style (see C02)
        try:
            out, calls = q.wire_call(proto, h, mname, args, script)
        except (xsdcodec.NotDenotable, dictcodec.NotDenotable):
            continue
        except (xsdcodec.SchemaError, xsdcodec.DecodeError, dictcodec.DecodeError) as e:
            res['notes']['wire-path-problem(C01/C02)'] = res['notes'].get('wire-path-problem(C01/C02)', 0) + 1
            continue
        wire[proto] = (out, calls)
    na = native_args(b, m, args, style)
    if na is None:
        return
    nargs, names = na
    for cs in styles:
        if cs == 'positional':
            a, k = list(nargs), {}
        elif cs == 'keyword':
            a, k = [], {n: v for n, v in zip(names, nargs)}
        else:
            half = len(nargs) // 2
            a, k = list(nargs[:half]), {n: v for n, v in zip(names[half:], nargs[half:])}
            if not nargs:
                continue
        out, calls = q.null_call(mname, a, k, script)
        res['evaluations'] += 1
        if out[0] == 'escape':
            V('null-escape', cs, 'NullServer call raised %s; args=%r' % (out[1], args))
            continue
        if len(calls) != 1:
            V('null-invocations', str(len(calls)), 'NullServer ran the function %d times' % len(calls))
            continue
        got_args = [spec.from_native(b, at[1], x) for at, x in zip(m.get('args', []), calls[0][1])]
        if not tagged.equal(args, got_args):
            V('null-args', cs, 'NullServer (%s call): sent %r, function received %r' % (cs, args, got_args))
        if out[0] == 'raw':
            nval = ret_to_ref(b, m, out[1])
        else:
            nval = None
        for proto, (wout, wcalls) in wire.items():
            if wout[0] == 'ok':
                if out[0] != 'raw':
                    V('null-fault-wire-ok', proto, 'NullServer raised %r, %s path returned %r' % (out[1], proto, wout[1]))
                elif not wire_equal(proto, wout[1], nval):
                    V('result-differs', proto + '|' + cs, 'NullServer (%s) returned %r, %s wire path decodes %r; function returned %r' % (cs, nval, proto, wout[1], ret))
            elif wout[0] == 'fault':
                if out[0] != 'fault':
                    V('wire-fault-null-ok', proto, '%s path answered fault %r, NullServer returned %r' % (proto, wout[1], nval))
                elif out[1] != wout[1]:
                    V('fault-differs', proto, 'NullServer raised %r, %s path answered %r' % (out[1], proto, wout[1]))
            wa = [c[1] for c in wcalls]
            if wa and not tagged.equal(args, wa[0]):
                res['notes']['wire-args-differ(C01/C02)'] = res['notes'].get('wire-args-differ(C01/C02)', 0) + 1
        res['outcomes']['compared-%d-paths' % len(wire)] = res['outcomes'].get('compared-%d-paths' % len(wire), 0) + 1
        if any(x is not None for x in args) or ret is not None:
            res['nontrivial'] += 1


def XmlNatives(b, m, ret):
    rt = m.get('ret')
    if rt is None:
        return None
    if isinstance(rt[0], list):
        return [spec.to_native(b, t, v) for t, v in zip(rt, ret)]
    return spec.to_native(b, rt, ret)


def run_shard(shard, only=None):
    res = {'evaluations': 0, 'nontrivial': 0, 'outcomes': {}, 'violations': [], 'samples': [], 'cov': {'programs': 0}, 'notes': {}}
    tier = shard['tier']
    if shard['kind'] == 'A':
        at = c01.atom_by_id(shard['atom'])
        program = universe.program_for(at, shard['pos'])
        q = Quad(program)
        res['cov']['programs'] += 1
        for label, v in universe.slot_values(shard['pos'], at, tier, 6 if tier == 'quick' else None):
            key = ['A', label]
            if only is not None and only != key:
                continue
            args, ret, ih, oh = universe.embed(shard['pos'], at, v)
            site = 'A|%s|%s' % (shard['pos'], c01.vlabel(label) if label.startswith(('none', 'container', 'empty')) else 'value')
            one_case(q, 'm', args, ret, res, site, {'shard': shard, 'only': key})
            if not res['samples']:
                res['samples'].append({'atom': shard['atom'], 'pos': shard['pos'], 'value': tagged.enc(v)})
    elif shard['kind'] == 'arity':
        for name, program, argv, retv in arity_programs():
            key = ['arity', name]
            if only is not None and only != key:
                continue
            q = Quad(program)
            res['cov']['programs'] += 1
            one_case(q, 'm', argv, retv, res, 'arity|' + name, {'shard': shard, 'only': key})
    elif shard['kind'] == 'hdr':
        run_hdr(shard, res, only)
    elif shard['kind'] == 'args':
        run_args(shard, res, only)
    elif shard['kind'] == 'aux':
        run_aux(shard, res, only)
    elif shard['kind'] == 'two-apps':
        run_two_apps(shard, res, only)
    else:
        from spyne.model.fault import Fault
        from spyne import Ignored
        A = ['a', I, {}]
        prog = {'tns': TNS, 'classes': [{'n': 'P', 'fields': [['x', I], ['s', U]]}],
                'services': [{'n': 'S', 'methods': [{'n': 'gen', 'args': [['n', I]], 'ret': A},
                                                    {'n': 'gen2', 'args': [['n', I]], 'ret': [A, U]},
                                                    {'n': 'gen3', 'args': [['n', I]], 'ret': [U, A]},
                                                    {'n': 'ign', 'args': [['n', I]], 'ret': ['c', 'P', {}]},
                                                    {'n': 'flt', 'args': [['n', I]], 'ret': I},
                                                    {'n': 'exc', 'args': [['n', I]], 'ret': I},
                                                    {'n': 'emp', 'args': [], 'ret': None}]}]}
        q = Quad(prog)
        b = q.b
        res['cov']['programs'] += 1
        # generator result
        for n in (0, 1, 3):
            key = ['gen', n]
            if only is not None and only != key:
                continue
            script = ('gen', list(range(n)))
            out, calls = q.null_call('gen', [n], {}, script)
            res['evaluations'] += 1
            val = ret_to_ref(b, b.methods['gen'], out[1]) if out[0] == 'raw' else out
            for proto, h in q.wires:
                for via in ('server', 'wsgi'):
                    wout, wcalls = q.wire_call(proto, h, 'gen', [n], script, via)
                    if wout[0] != 'ok' or not tagged.equal(wout[1], val):
                        res['violations'].append({'sig': 'C18|generator-differs|%s|%s' % (proto, via),
                                                  'what': 'generator result of %d items: NullServer gives %r, %s wire path (%s) %r' % (n, val, proto, via, wout),
                                                  'case': {'shard': shard, 'only': key}, 'count': 1})
            res['nontrivial'] += 1
            # several return values one of which is a generator (first / last)
            for mname, mkret in (('gen2', lambda: ((x for x in range(n)), 'tag')), ('gen3', lambda: ('tag', (x for x in range(n))))):
                script2 = ('call', lambda ctx, k, mkret=mkret: mkret())
                out2, _c = q.null_call(mname, [n], {}, script2)
                res['evaluations'] += 1
                if out2[0] != 'raw':
                    res['violations'].append({'sig': 'C18|generator-multi-null|%s' % mname, 'what': 'NullServer: %r' % (out2,), 'case': {'shard': shard, 'only': key}, 'count': 1})
                    continue
                r2 = out2[1]
                val2 = tuple(list(x) if hasattr(x, '__iter__') and not isinstance(x, str) else x for x in r2) if isinstance(r2, (list, tuple)) else r2
                want2 = (list(range(n)), 'tag') if mname == 'gen2' else ('tag', list(range(n)))
                if not tagged.equal(want2, val2):
                    res['violations'].append({'sig': 'C18|generator-multi-null|%s' % mname, 'what': 'NullServer returned %r for %r' % (val2, want2), 'case': {'shard': shard, 'only': key}, 'count': 1})
                for proto, h in q.wires:
                    for via in ('server', 'wsgi'):
                        wout, wcalls = q.wire_call(proto, h, mname, [n], script2, via)
                        if wout[0] != 'ok' or not tagged.equal(want2, wout[1]):
                            res['violations'].append({'sig': 'C18|generator-multi-differs|%s|%s|%s' % (mname, proto, via),
                                                      'what': 'return values %r (one of them a generator): %s wire path (%s) gives %r' % (want2, proto, via, wout),
                                                      'case': {'shard': shard, 'only': key}, 'count': 1})
                res['nontrivial'] += 1
        # Ignored: delivered to the direct caller, empty over the wire
        key = ['ign', 0]
        if only is None or only == key:
            marker = b.classes['P'](x=1, s='kept')
            script = ('call', lambda ctx, n: Ignored(marker))
            out, calls = q.null_call('ign', [1], {}, script)
            res['evaluations'] += 1
            if out[0] != 'raw' or not isinstance(out[1], Ignored) or out[1].args[0] is not marker:
                res['violations'].append({'sig': 'C18|ignored-not-delivered', 'what': 'Ignored(...) return: NullServer caller got %r' % (out,),
                                          'case': {'shard': shard, 'only': key}, 'count': 1})
            for proto, h in q.wires:
                wout, wcalls = q.wire_call(proto, h, 'ign', [1], script)
                empty = wout[0] == 'ok' and (wout[1] is None or (isinstance(wout[1], Obj) and all(x is None for x in wout[1].f.values())))
                if not empty:
                    res['violations'].append({'sig': 'C18|ignored-sent-over-wire|%s' % proto, 'what': 'Ignored(...) return: %s wire path carries %r' % (proto, wout),
                                              'case': {'shard': shard, 'only': key}, 'count': 1})
            res['nontrivial'] += 1
        # faults and non-Fault exceptions
        for mname, mk in (('flt', lambda: Fault('Client.Custom.Sub', 'the message é')), ('flt', lambda: Fault('Server', 'boom')),
                          ('exc', lambda: ValueError('secret'))):
            key = [mname, mk().__class__.__name__ + str(getattr(mk(), 'faultcode', ''))]
            if only is not None and only != key:
                continue
            script = ('raise', mk)
            out, calls = q.null_call(mname, [1], {}, script)
            res['evaluations'] += 1
            for proto, h in q.wires:
                wout, wcalls = q.wire_call(proto, h, mname, [1], script)
                if wout[0] != 'fault' or out[0] != 'fault' or wout[1] != out[1]:
                    res['violations'].append({'sig': 'C18|fault-differs|%s|%s' % (proto, mname),
                                              'what': 'function raised %r: NullServer gives %r, %s wire path %r' % (mk(), out, proto, wout),
                                              'case': {'shard': shard, 'only': key}, 'count': 1})
            res['nontrivial'] += 1
        # empty
        key = ['emp', 0]
        if only is None or only == key:
            out, calls = q.null_call('emp', [], {}, ('ret', None))
            res['evaluations'] += 1
            if out != ('raw', None) or len(calls) != 1:
                res['violations'].append({'sig': 'C18|empty', 'what': 'method without arguments and result: NullServer gives %r after %d calls' % (out, len(calls)),
                                          'case': {'shard': shard, 'only': key}, 'count': 1})
            res['nontrivial'] += 1
    return c01.compress(res)


def replay(case):
    r = run_shard(case['shard'], only=case['only'])
    return r['violations']
