"""C17 - XML input is parsed with safe defaults.

Bounded-exhaustive enumeration (E1): attack kind x position x protocol x transport.  Attack kinds: external general
entity (file:, http://127.0.0.1:<canary port>, ftp:), external parameter entity, external DTD subset (file and http),
XInclude, internal entity chains for every (fan-out, depth) of a grid, quadratic blow-up, deep nesting, huge
attribute counts, processing instructions and comments; each placed at every text and every attribute position of
valid requests for XmlDocument, Soap11 and Soap12 (default protocol arguments) through ServerBase and WSGI.
Monitors: inotify watches on the canary files (no open/access during the request), a listening canary socket (no
connection), canary content neither in the captured arguments nor in the response, the keyword arguments of every
XMLParser constructed while handling the request, and - for the bombs, run in a child process - wall time and
resident memory."""
import ctypes
import itertools
import json
import os
import socket
import struct
import subprocess
import sys
import tempfile
import time

from lxml import etree

from vf import tagged, harness, spec, drv, universe
from vf.ref import xsdcodec
from vf.tagged import Obj

ID = 'C17'
LEVEL = 'exploration'
RULE = ('every (attack kind, injection position, protocol, transport); non-trivial when the attack document differs from the valid request '
        'and was processed while all monitors were armed (monitor self-tests passed); distinct by the full tuple')
ASSUMPTIONS = ['libxml2 in this image has no HTTP/FTP client, so network contact is observed through the parser options and a listening canary socket only',
               'bounds for bombs: 10 s wall time and 256 MiB resident-memory growth in a child process']
FLOOR = {'quick': 400, 'thorough': 1200}
TNS = universe.TNS
I = ['p', 'Integer', {}]
U = ['p', 'Unicode', {}]
SAFE = {'resolve_entities': False, 'load_dtd': False, 'no_network': True, 'huge_tree': False, 'dtd_validation': False, 'attribute_defaults': False}

IN_ACCESS, IN_OPEN, IN_NONBLOCK = 0x1, 0x20, 0o4000


class Inotify(object):
    def __init__(self, paths):
        self.libc = ctypes.CDLL('libc.so.6', use_errno=True)
        self.fd = self.libc.inotify_init1(IN_NONBLOCK)
        if self.fd < 0:
            raise OSError('inotify_init1 failed')
        for p in paths:
            wd = self.libc.inotify_add_watch(self.fd, p.encode(), IN_ACCESS | IN_OPEN)
            if wd < 0:
                raise OSError('inotify_add_watch failed for %s' % p)

    def drain(self):
        n = 0
        while True:
            try:
                data = os.read(self.fd, 4096)
            except BlockingIOError:
                break
            if not data:
                break
            off = 0
            while off + 16 <= len(data):
                wd, mask, cookie, ln = struct.unpack_from('iIII', data, off)
                off += 16 + ln
                n += 1
        return n

    def close(self):
        os.close(self.fd)


class Monitors(object):
    def __init__(self):
        self.dir = tempfile.mkdtemp(prefix='vfc17')
        self.token = 'CANARY-%d-%d' % (os.getpid(), int(time.time() * 1000) % 100000)
        self.file = os.path.join(self.dir, 'canary.txt')
        self.dtd = os.path.join(self.dir, 'evil.dtd')
        with open(self.file, 'w') as f:
            f.write(self.token)
        with open(self.dtd, 'w') as f:
            f.write('<!ENTITY dtdent "%s-FROM-DTD">' % self.token)
        self.ino = Inotify([self.file, self.dtd])
        self.sock = socket.socket()
        self.sock.bind(('127.0.0.1', 0))
        self.sock.listen(8)
        self.sock.setblocking(False)
        self.port = self.sock.getsockname()[1]
        self.parsers = []
        self._patched = []

    def patch_parsers(self):
        import spyne.protocol.xml as X
        import spyne.protocol.soap.soap11 as S
        for mod in (X, S):
            orig = mod.XMLParser
            rec = self.parsers

            def wrapper(*a, _orig=orig, **kw):
                rec.append(dict(kw))
                return _orig(*a, **kw)
            mod.XMLParser = wrapper
            self._patched.append((mod, orig))

    def unpatch(self):
        for mod, orig in self._patched:
            mod.XMLParser = orig

    def reset(self):
        self.ino.drain()
        del self.parsers[:]
        self.accepted()

    def accepted(self):
        n = 0
        while True:
            try:
                c, _ = self.sock.accept()
                c.close()
                n += 1
            except (BlockingIOError, OSError):
                break
        return n

    def selftest(self):
        """the monitors must fire when the parser IS unsafe"""
        self.reset()
        doc = ('<!DOCTYPE a [<!ENTITY x SYSTEM "file://%s">]><a>&x;</a>' % self.file).encode()
        r = etree.fromstring(doc, etree.XMLParser(resolve_entities=True, load_dtd=True, no_network=False))
        file_seen = self.ino.drain() > 0
        content_seen = self.token in (r.text or '')
        s = socket.socket()
        s.settimeout(1)
        s.connect(('127.0.0.1', self.port))
        s.close()
        time.sleep(0.01)
        sock_seen = self.accepted() > 0
        return file_seen and content_seen and sock_seen

    def close(self):
        self.unpatch()
        self.ino.close()
        self.sock.close()
        import shutil
        shutil.rmtree(self.dir, ignore_errors=True)


def programs(which=0):
    if which == 2:
        # members whose content is free-form XML: other deserialisation paths (dict_from_element, any_xml ...)
        P = {'n': 'P', 'fields': [['s', U], ['d', ['p', 'AnyDict', {}]], ['x', ['p', 'AnyXml', {}]]]}
        m = {'n': 'm', 'args': [['a', ['c', 'P', {}]], ['dd', ['p', 'AnyDict', {}]], ['t', U]], 'ret': U}
        return {'tns': TNS, 'classes': [P], 'services': [{'n': 'S', 'methods': [m]}]}, None
    if which == 1:
        Q = {'n': 'Q', 'fields': [['q', U], ['qa', ['xa', U]], ['d', ['p', 'Date', {}]]]}
        P = {'n': 'P', 'fields': [['s', U], ['at', ['xa', U]], ['qs', ['a', ['c', 'Q', {}], {}]], ['u', ['p', 'Unicode', {'max_occurs': 'unbounded'}]]]}
        m = {'n': 'm', 'args': [['a', ['c', 'P', {}]], ['t', U]], 'ret': U}
        import datetime
        return ({'tns': TNS, 'classes': [Q, P], 'services': [{'n': 'S', 'methods': [m]}]},
                [Obj('P', s='ess', at='attr', qs=[Obj('Q', q='one', qa='qattr', d=datetime.date(2020, 1, 2)), Obj('Q', q='two', qa=None, d=None)], u=['u1', 'u2']), 'tee'])
    P = {'n': 'P', 'fields': [['s', U], ['n', I], ['at', ['xa', U]], ['l', ['a', U, {}]]]}
    m = {'n': 'm', 'args': [['a', ['c', 'P', {}]], ['t', U], ['z', I]], 'ret': U}
    return {'tns': TNS, 'classes': [P], 'services': [{'n': 'S', 'methods': [m]}]}, [Obj('P', s='ess', n=5, at='attr', l=['x', 'y']), 'tee', 7]


def attack_docs(valid, mon, proto):
    """yield (kind, position label, bytes): every attack at every text / attribute position"""
    body = valid.split(b'?>', 1)[-1] if valid.startswith(b'<?xml') else valid
    root = etree.fromstring(valid)
    elems = [e for e in root.iter() if isinstance(e.tag, str)]
    f, dtd, port = mon.file, mon.dtd, mon.port
    entity_decls = [
        ('ext-entity-file', '<!ENTITY xxe SYSTEM "file://%s">' % f, '&xxe;'),
        ('ext-entity-http', '<!ENTITY xxe SYSTEM "http://127.0.0.1:%d/x">' % port, '&xxe;'),
        ('ext-entity-ftp', '<!ENTITY xxe SYSTEM "ftp://127.0.0.1:%d/x">' % port, '&xxe;'),
        ('param-entity-file', '<!ENTITY %% p SYSTEM "file://%s"> %%p;' % dtd, '&dtdent;'),
        ('param-entity-http', '<!ENTITY %% p SYSTEM "http://127.0.0.1:%d/e.dtd"> %%p;' % port, '&dtdent;'),
        ('internal-entity', '<!ENTITY xxe "INTERNAL-%s">' % mon.token, '&xxe;'),
    ]
    rootname = etree.QName(root).localname
    pfx = root.prefix
    qroot = '%s:%s' % (pfx, rootname) if pfx else rootname

    def serialise_with(decl, mutate):
        r2 = etree.fromstring(valid)
        mutate(r2)
        txt = etree.tostring(r2).decode('utf8').replace('VFENTITYREF', '&xxe;').replace('VFDTDENTREF', '&dtdent;')
        return ('<!DOCTYPE %s [%s]>' % (qroot, decl)).encode('utf8') + txt.encode('utf8')
    for idx in range(len(elems)):
        e0 = elems[idx]
        name = etree.QName(e0).localname
        if len(e0) == 0:
            for kind, decl, ref in entity_decls:
                marker = 'VFENTITYREF' if ref == '&xxe;' else 'VFDTDENTREF'

                def mut(r2, idx=idx, marker=marker):
                    es = [x for x in r2.iter() if isinstance(x.tag, str)]
                    es[idx].text = marker
                yield kind, 'text:%s#%d' % (name, idx), serialise_with(decl, mut)
        else:
            # element-only content: the reference sits between the tags (before the first child / after the last one)
            for kind, decl, ref in entity_decls:
                marker = 'VFENTITYREF' if ref == '&xxe;' else 'VFDTDENTREF'
                for where in ('lead', 'trail'):
                    def mut(r2, idx=idx, marker=marker, where=where):
                        es = [x for x in r2.iter() if isinstance(x.tag, str)]
                        if where == 'lead':
                            es[idx].text = marker
                        else:
                            es[idx][-1].tail = marker
                    yield kind, 'text:%s#%d/%s' % (name, idx, where), serialise_with(decl, mut)
        for ak in list(e0.attrib):
            if 'XMLSchema-instance' in ak:
                continue
            for kind, decl, ref in entity_decls:
                marker = 'VFENTITYREF' if ref == '&xxe;' else 'VFDTDENTREF'

                def mut(r2, idx=idx, ak=ak, marker=marker):
                    es = [x for x in r2.iter() if isinstance(x.tag, str)]
                    es[idx].set(ak, marker)
                yield kind, 'attr:%s@%s' % (name, etree.QName(ak).localname), serialise_with(decl, mut)
        # XInclude at this position
        def mutx(r2, idx=idx):
            es = [x for x in r2.iter() if isinstance(x.tag, str)]
            inc = etree.SubElement(es[idx], '{http://www.w3.org/2001/XInclude}include')
            inc.set('href', 'file://%s' % f)
            inc.set('parse', 'text')
        r2 = etree.fromstring(valid)
        mutx(r2)
        yield 'xinclude', 'child:%s#%d' % (name, idx), etree.tostring(r2)
        # processing instruction and comment at this position
        r3 = etree.fromstring(valid)
        es = [x for x in r3.iter() if isinstance(x.tag, str)]
        es[idx].append(etree.ProcessingInstruction('php', 'system("cat %s")' % f))
        es[idx].append(etree.Comment(' ' + mon.token + ' '))
        yield 'pi-comment', 'child:%s#%d' % (name, idx), etree.tostring(r3)
    # external DTD subsets
    yield 'ext-dtd-file', 'doctype', ('<!DOCTYPE %s SYSTEM "file://%s">' % (qroot, dtd)).encode() + body
    yield 'ext-dtd-http', 'doctype', ('<!DOCTYPE %s SYSTEM "http://127.0.0.1:%d/e.dtd">' % (qroot, port)).encode() + body
    yield 'ext-dtd-public', 'doctype', ('<!DOCTYPE %s PUBLIC "-//X//Y" "file://%s">' % (qroot, dtd)).encode() + body


def bombs(valid, tier):
    """(kind, label, bytes) resource-exhaustion documents built around the valid request"""
    body = valid.split(b'?>', 1)[-1] if valid.startswith(b'<?xml') else valid
    root = etree.fromstring(valid)
    rootname = etree.QName(root).localname
    pfx = root.prefix
    qroot = '%s:%s' % (pfx, rootname) if pfx else rootname
    first_leaf = [e for e in root.iter() if isinstance(e.tag, str) and len(e) == 0][0]

    def with_ref(decls, ref):
        r2 = etree.fromstring(valid)
        leaf = [e for e in r2.iter() if isinstance(e.tag, str) and len(e) == 0][0]
        leaf.text = 'VFREF'
        return ('<!DOCTYPE %s [%s]>' % (qroot, decls)).encode() + etree.tostring(r2).replace(b'VFREF', ref.encode())
    fans = [2, 10, 100] if tier == 'thorough' else [2, 10]
    depths = range(1, 11) if tier == 'thorough' else (1, 3, 6, 9)
    def with_attr_ref(decls, ref):
        r2 = etree.fromstring(valid)
        target = [e for e in r2.iter() if isinstance(e.tag, str) and e.get('at') is not None][0]
        target.set('at', 'VFREF')
        return ('<!DOCTYPE %s [%s]>' % (qroot, decls)).encode() + etree.tostring(r2).replace(b'VFREF', ref.encode())
    for fan in fans:
        for depth in depths:
            if fan ** depth > 10 ** 12:
                continue
            decls = '<!ENTITY e0 "lol">' + ''.join('<!ENTITY e%d "%s">' % (i, ('&e%d;' % (i - 1)) * fan) for i in range(1, depth + 1))
            yield 'entity-chain', 'fan=%d,depth=%d' % (fan, depth), with_ref(decls, '&e%d;' % depth)
            # libxml2 substitutes entities inside attribute values whatever resolve_entities says
            yield 'entity-chain-in-attribute', 'fan=%d,depth=%d' % (fan, depth), with_attr_ref(decls, '&e%d;' % depth)
    for n in ((10 ** 3, 10 ** 4) if tier == 'quick' else (10 ** 3, 10 ** 4, 10 ** 5, 10 ** 6)):
        decls = '<!ENTITY big "%s">' % ('A' * min(n, 50000))
        yield 'quadratic', 'refs=%d' % n, with_ref(decls, '&big;' * n)
    for d in ((10 ** 2, 10 ** 4) if tier == 'quick' else (10 ** 2, 10 ** 3, 10 ** 4, 10 ** 5, 10 ** 6)):
        r2 = etree.fromstring(valid)
        leaf = [e for e in r2.iter() if isinstance(e.tag, str) and len(e) == 0][0]
        leaf.text = 'VFNEST'
        yield 'deep-nesting', 'depth=%d' % d, etree.tostring(r2).replace(b'VFNEST', b'<x>' * d + b'</x>' * d)
    for n in ((10 ** 2, 10 ** 4) if tier == 'quick' else (10 ** 2, 10 ** 3, 10 ** 4, 10 ** 5)):
        r2 = etree.tostring(etree.fromstring(valid))
        tag_end = r2.index(b'>')
        attrs = b''.join(b' a%d="v"' % i for i in range(n))
        yield 'many-attributes', 'n=%d' % n, r2[:tag_end] + attrs + r2[tag_end:]


def bounds(tier):
    return {'attack_kinds': ['ext-entity-file/http/ftp', 'param-entity-file/http', 'internal-entity', 'xinclude', 'pi-comment', 'ext-dtd-file/http/public',
                             'entity-chain grid', 'quadratic', 'deep-nesting', 'many-attributes'],
            'protocols': ['xml', 'soap11', 'soap12'], 'transports': ['ServerBase', 'WSGI'], 'positions': 'every leaf text and every attribute of the valid request',
            'bomb_limits': {'seconds': 10, 'rss_growth_mib': 256}}


def shards(tier):
    out = []
    for proto in ('xml', 'soap11', 'soap12'):
        for transport in ('server', 'wsgi'):
            out.append({'kind': 'inject', 'proto': proto, 'transport': transport, 'tier': tier})
            # the same attacks against an application that validates with the schema (the attack documents follow each
            # other on one application: what a validated request leaves behind is there for the next one)
            out.append({'kind': 'inject', 'proto': proto, 'transport': transport, 'tier': tier, 'validator': 'lxml'})
            out.append({'kind': 'inject', 'proto': proto, 'transport': transport, 'tier': tier, 'program': 2})
            if tier == 'thorough':
                out.append({'kind': 'inject', 'proto': proto, 'transport': transport, 'tier': tier, 'program': 1})
            out.append({'kind': 'bombs', 'proto': proto, 'transport': transport, 'tier': tier})
        out.append({'kind': 'lifecycle', 'proto': proto, 'transport': 'server', 'tier': tier})
    return out


FRAMINGS = [('plain', b'', True), ('decl', b'<?xml version="1.0"?>', True), ('decl-encoding', b'<?xml version="1.0" encoding="utf-8"?>', True),
            ('decl-encoding,no-charset', b'<?xml version="1.0" encoding="utf-8"?>', False), ('plain,no-charset', b'', False),
            # SOAP with attachments: the envelope is the root part of a multipart/related body, followed by one attachment
            ('multipart', b'<?xml version="1.0"?>', 'multipart')]


def multipart_body(envelope):
    return (b'--VFBOUND\r\nContent-Type: text/xml; charset=utf-8\r\nContent-ID: <root>\r\n\r\n' + envelope +
            b'\r\n--VFBOUND\r\nContent-Type: application/octet-stream\r\nContent-ID: <att1>\r\nContent-Transfer-Encoding: base64\r\n\r\nQUJD\r\n--VFBOUND--\r\n')


def run_one(h, wsgi, proto, transport, data, charset=True):
    b = h.b
    b.rec.reset()
    b.rec.script['m'] = ('ret', 'fine')
    if transport == 'wsgi':
        if charset == 'multipart':
            env = drv.environ('POST', '/', '', multipart_body(data), content_type='multipart/related; boundary=VFBOUND; start="<root>"; type="text/xml"')
        else:
            env = drv.environ('POST', '/', '', data, content_type='text/xml; charset=utf-8' if charset else 'text/xml')
        o = drv.call_wsgi(wsgi, env)
        code = None
        if not (o.status or '').startswith('2') and o.out:
            code = 'fault'
    else:
        o = drv.call_server(h.srv, data, charset='utf-8' if charset else None)
    return o


LIFECYCLES = [(1, 16), (100, 100), (8, 48)]


def run_lifecycle(shard, res, h, valid, only):
    """histories P^k D N^m: k protocol instances configured (legally) with permissive parser options parse a request and
    are discarded; then m instances with DEFAULT settings are created in the same process and each receives the
    internal-entity and the file-entity attack.  Default instances must behave as if the permissive ones had never
    existed (nothing about parsers may be shared through process-wide state)."""
    import gc
    proto = shard['proto']
    b = h.b
    mon = Monitors()
    try:
        docs = [(k, d) for k, pos, d in attack_docs(valid, mon, proto) if k in ('internal-entity', 'ext-entity-file') and pos.startswith('text:')]
        by_kind = {}
        for k, d in docs:
            by_kind.setdefault(k, d)
        plan = list(LIFECYCLES if shard['tier'] == 'thorough' else LIFECYCLES[:2])
        if only is not None:
            # confirmation run in a fresh interpreter: where objects land differs from process to process, so the recorded
            # history is repeated a few times (it stops at the first violation)
            plan = [tuple(only)] * 6
        for (np, nd) in plan:
            key = [np, nd]
            if only is not None and res['violations']:
                break
            perm = []
            for i in range(np):
                app = spec.make_app(b, harness.make_proto(proto, None, resolve_entities=True, load_dtd=True, huge_tree=True), harness.make_proto(proto))
                srv = drv.make_server(app)
                b.rec.reset()
                b.rec.script['m'] = ('ret', 'fine')
                drv.call_server(srv, valid, charset='utf-8')
                perm.append((app, srv))
            stale = {}
            stale_seq = {}
            for app, srv in perm:
                for an, v in vars(app.in_protocol).items():
                    if isinstance(v, dict):
                        stale.setdefault(an, set()).add(id(v))
                        stale_seq.setdefault(an, []).append(id(v))
            del perm, app, srv
            gc.collect()
            keep = []
            candidates = 0
            per_attr = {}
            for j in range(nd * 100):
                inp = harness.make_proto(proto, None)
                # every instance among the first nd is attacked; after that only those one of whose dict attributes lives
                # where the same attribute of a discarded permissive instance lived (process-wide state keyed by identity)
                reused = sorted(an for an, v in vars(inp).items() if isinstance(v, dict) and id(v) in stale.get(an, ()))
                if j >= nd:
                    # (at most 40 candidates per reused attribute: one attribute that is reused often must not use up
                    # the budget of the others)
                    reused = [an for an in reused if per_attr.get(an, 0) < 40]
                    if not reused:
                        keep.append(inp)
                        continue
                    for an in reused:
                        per_attr[an] = per_attr.get(an, 0) + 1
                    candidates += 1
                app = spec.make_app(b, inp, harness.make_proto(proto))
                srv = drv.make_server(app)
                keep.append((app, srv))
                for kind, data in sorted(by_kind.items()):
                    mon.reset()
                    b.rec.reset()
                    b.rec.script['m'] = ('ret', 'fine')
                    o = drv.call_server(srv, data, charset='utf-8')
                    res['evaluations'] += 1
                    calls = [c for c in b.rec.calls]
                    hay = ' '.join(_strings([c[1] for c in calls])) + ' ' + (o.out or b'').decode('utf8', 'replace')
                    nfile = mon.ino.drain()
                    if mon.token in hay or nfile:
                        res['violations'].append({'sig': 'C17|lifecycle|%s|%s' % (proto, kind),
                                                  'what': '[%s] after %d permissive protocol instances were used and discarded, default-configured instance #%d expanded the %s '
                                                          '(canary file opened %d times; token in arguments/response: %s)' % (proto, np, j, kind, nfile, mon.token in hay),
                                                  'case': {'shard': shard, 'only': key}, 'count': 1})
                    else:
                        res['nontrivial'] += 1
            # Where a new object lands is the allocator's choice, i.e. nondeterminism the scan above only samples.  It is
            # therefore also taken over: id() is wrapped so that the dict attributes of a new default instance report the
            # identity of the same attribute of a DEAD permissive instance - an outcome CPython may produce at any time.
            # Scenarios: all such attributes at once (oldest / newest permissive instance), and each attribute alone.
            import builtins
            real_id = builtins.id
            scenarios = []
            names = sorted(stale_seq)
            for pick in (0, -1):
                scenarios.append(('all:%d' % pick, {an: stale_seq[an][pick] for an in names}))
            for an in names:
                scenarios.append((an, {an: stale_seq[an][-1]}))
            for sname, wanted in scenarios:
                inp = harness.make_proto(proto, None)
                alias = {real_id(v): wanted[an] for an, v in vars(inp).items() if isinstance(v, dict) and an in wanted}
                if not alias:
                    continue
                builtins.id = lambda o, alias=alias, real_id=real_id: alias.get(real_id(o), real_id(o))
                try:
                    app = spec.make_app(b, inp, harness.make_proto(proto))
                    srv = drv.make_server(app)
                    keep.append((app, srv))
                    for kind, data in sorted(by_kind.items()):
                        mon.reset()
                        b.rec.reset()
                        b.rec.script['m'] = ('ret', 'fine')
                        o = drv.call_server(srv, data, charset='utf-8')
                        res['evaluations'] += 1
                        hay = ' '.join(_strings([c[1] for c in b.rec.calls])) + ' ' + (o.out or b'').decode('utf8', 'replace')
                        nfile = mon.ino.drain()
                        if mon.token in hay or nfile:
                            res['violations'].append({'sig': 'C17|lifecycle-identity|%s|%s' % (proto, kind),
                                                      'what': '[%s] after %d permissive protocol instances were used and discarded, a default-configured instance whose '
                                                              'attribute(s) %s have the identity of the same attribute of a discarded instance expanded the %s (canary file '
                                                              'opened %d times; token in arguments/response: %s)' % (proto, np, sorted(wanted), kind, nfile, mon.token in hay),
                                                      'case': {'shard': shard, 'only': key}, 'count': 1})
                        else:
                            res['nontrivial'] += 1
                finally:
                    builtins.id = real_id
                res['cov']['lifecycle_identity_scenarios'] = res['cov'].get('lifecycle_identity_scenarios', 0) + 1
            # the other order: the default-configured application exists first, a permissively configured sibling (of each
            # XML protocol class) is constructed afterwards and never used
            for sib in ('xml', 'soap11', 'soap12'):
                app = spec.make_app(b, harness.make_proto(proto, None), harness.make_proto(proto))
                srv = drv.make_server(app)
                sibling = harness.make_proto(sib, None, resolve_entities=True, load_dtd=True, huge_tree=True)
                keep.append((app, srv, sibling))
                for kind, data in sorted(by_kind.items()):
                    mon.reset()
                    b.rec.reset()
                    b.rec.script['m'] = ('ret', 'fine')
                    o = drv.call_server(srv, data, charset='utf-8')
                    res['evaluations'] += 1
                    hay = ' '.join(_strings([c[1] for c in b.rec.calls])) + ' ' + (o.out or b'').decode('utf8', 'replace')
                    nfile = mon.ino.drain()
                    if mon.token in hay or nfile:
                        res['violations'].append({'sig': 'C17|lifecycle-sibling|%s|%s|%s' % (proto, kind, sib),
                                                  'what': '[%s] a default-configured application expanded the %s after a permissively configured %s protocol object was '
                                                          'constructed (and never used) (canary file opened %d times; token in arguments/response: %s)' % (proto, kind, sib, nfile, mon.token in hay),
                                                  'case': {'shard': shard, 'only': key}, 'count': 1})
                    else:
                        res['nontrivial'] += 1
            res['cov']['lifecycle_identity_reuse_candidates'] = res['cov'].get('lifecycle_identity_reuse_candidates', 0) + candidates
            res['outcomes']['lifecycle'] = res['outcomes'].get('lifecycle', 0) + 1
            res['cov']['lifecycle_histories'] = res['cov'].get('lifecycle_histories', 0) + 1
            del keep
    finally:
        mon.close()


def child_main():
    """run one bomb in this (child) process and print a JSON verdict"""
    import logging
    import resource
    import warnings
    warnings.simplefilter('ignore')
    logging.disable(logging.CRITICAL)
    req = json.loads(sys.stdin.read())
    prog, args = programs()
    from spyne.server.wsgi import WsgiApplication
    h = harness.XmlHarness(prog, req['proto'], None)
    wsgi = WsgiApplication(h.app, max_content_length=64 * 1024 * 1024)
    data = bytes.fromhex(req['data'])
    rss0 = resource.getrusage(resource.RUSAGE_SELF).ru_maxrss
    t0 = time.time()
    o = run_one(h, wsgi, req['proto'], req['transport'], data)
    dt = time.time() - t0
    rss1 = resource.getrusage(resource.RUSAGE_SELF).ru_maxrss
    calls = h.captured('m')
    out = {'seconds': dt, 'rss_growth_mib': (rss1 - rss0) / 1024.0, 'escaped': None if o.escaped is None else repr(o.escaped)[:200],
           'fault': None if o.fault is None else str(o.fault.faultcode), 'status': o.status, 'entered': len(calls),
           'max_arg_len': max([len(x) for c in calls for x in _strings(c[1])] or [0]), 'out_len': len(o.out or b'')}
    print('VFRESULT ' + json.dumps(out))


def _strings(v):
    if isinstance(v, str):
        yield v
    elif isinstance(v, Obj):
        for x in v.f.values():
            for s in _strings(x):
                yield s
    elif isinstance(v, (list, tuple)):
        for x in v:
            for s in _strings(x):
                yield s
    elif isinstance(v, dict):
        for k, x in v.items():
            for s in _strings(k):
                yield s
            for s in _strings(x):
                yield s
    elif isinstance(v, etree._Element):
        try:
            yield etree.tostring(v, encoding='unicode')
            if isinstance(v.tag, str):
                yield ''.join(v.itertext())
        except (ValueError, TypeError):
            yield repr(v)


def run_shard(shard, only=None):
    res = {'evaluations': 0, 'nontrivial': 0, 'outcomes': {}, 'violations': [], 'samples': [], 'cov': {'programs': 1}, 'notes': {}}
    tier = shard['tier']
    proto, transport = shard['proto'], shard['transport']
    prog, args = programs(shard.get('program', 0))
    from spyne.server.wsgi import WsgiApplication
    h = harness.XmlHarness(prog, proto, shard.get('validator'))
    wsgi = WsgiApplication(h.app)
    m = h.b.methods['m']
    if args is None:
        # (free-form members are not denotable by the schema-driven codec: the valid request is written out)
        inner = ('<tns:m xmlns:tns="%s"><tns:a><tns:s>ess</tns:s><tns:d><k>vee</k><deep><leaf at="attr">tee</leaf><leaf>two</leaf></deep></tns:d>'
                 '<tns:x><any kind="free">content<sub>more</sub></any></tns:x></tns:a><tns:dd><one>1</one><two><three>3</three></two></tns:dd>'
                 '<tns:t>tee</tns:t></tns:m>' % TNS)
        env = xsdcodec.envelope_ns(proto)
        valid = (('<e:Envelope xmlns:e="%s"><e:Body>%s</e:Body></e:Envelope>' % (env, inner)) if env else inner).encode('utf8')
    else:
        valid = xsdcodec.build_request(h.codec, m, args, proto)
    if shard['kind'] == 'lifecycle':
        run_lifecycle(shard, res, h, valid, only)
        from vf.props.c01 import compress
        return compress(res)
    if shard['kind'] == 'inject':
        mon = Monitors()
        try:
            if not mon.selftest():
                raise RuntimeError('monitor self-test failed: inotify / canary socket do not fire with an unsafe parser')
            res['cov']['monitor_selftests_passed'] = 1
            mon.patch_parsers()
            o = run_one(h, wsgi, proto, transport, valid)
            assert o.escaped is None and len(h.captured('m')) == 1, 'valid request must succeed'
            for (kind, pos, data0), (fid, prolog, charset) in itertools.product(list(attack_docs(valid, mon, proto)), FRAMINGS):
                # framing: XML declaration (with / without encoding=) x charset announced by the transport or not -
                # the protocols choose their parsing path by these
                if charset == 'multipart' and not (transport == 'wsgi' and proto in ('soap11', 'soap12')):
                    continue
                data = prolog + data0
                key = [kind, pos, fid]
                if only is not None and only != key:
                    continue
                mon.reset()
                o = run_one(h, wsgi, proto, transport, data, charset)
                res['evaluations'] += 1
                casedoc = {'shard': shard, 'only': key}
                posclass = pos.split(':')[0]

                def V(what_kind, detail, what):
                    res['violations'].append({'sig': 'C17|%s|%s|%s|%s|%s' % (what_kind, proto, kind, detail, fid),
                                              'what': '[%s%s %s %s at %s, framing %s] %s; document=%r' % (proto, ',validator=lxml' if shard.get('validator') else '', transport, kind, pos, fid, what, data[:400]),
                                              'case': casedoc, 'count': 1})
                ok = True
                nfile = mon.ino.drain()
                if nfile:
                    V('file-read', posclass, 'the canary file was opened/read %d times while handling the request' % nfile)
                    ok = False
                time.sleep(0)
                nsock = mon.accepted()
                if nsock:
                    V('network-contact', posclass, 'the canary socket received %d connection(s)' % nsock)
                    ok = False
                calls = h.captured('m')
                hay = ' '.join(_strings([c[1] for c in calls])) + ' ' + (o.out or b'').decode('utf8', 'replace')
                # (an internal entity's replacement text is a literal the client itself put in the document; libxml2
                # substitutes it inside attribute values whatever the parser options - not a disclosure)
                if mon.token in hay and kind != 'pi-comment' and not (kind == 'internal-entity' and posclass == 'attr'):
                    V('content-leak', posclass, 'entity replacement text / canary content reached user code or the response: %r' % hay[:200])
                    ok = False
                if kind == 'pi-comment' and mon.token in ' '.join(_strings([c[1] for c in calls])):
                    V('comment-leak', posclass, 'comment / PI content reached user code')
                    ok = False
                for kw in mon.parsers:
                    bad = {k: kw.get(k, None) for k, v in SAFE.items() if k in kw and kw[k] != v}
                    if bad:
                        V('unsafe-parser-options', ','.join(sorted(bad)), 'XMLParser constructed with %r' % (bad,))
                        ok = False
                        break
                if not mon.parsers:
                    res['notes']['no-monitored-parser-constructed'] = res['notes'].get('no-monitored-parser-constructed', 0) + 1
                if o.escaped is not None:
                    V('escape', '%s@%s' % (type(o.escaped).__name__, o.escaped_where), 'exception escaped: %r' % (o.escaped,))
                    ok = False
                oc = 'fault' if (o.fault is not None or (o.status and not o.status.startswith('2'))) else 'accepted-unexpanded'
                res['outcomes'][oc] = res['outcomes'].get(oc, 0) + 1
                if ok:
                    res['nontrivial'] += 1
                if not res['samples']:
                    res['samples'].append({'kind': kind, 'position': pos, 'proto': proto, 'document': data.decode('utf8', 'replace')[:400]})
        finally:
            mon.close()
    else:
        for kind, label, data in bombs(valid, tier):
            key = [kind, label]
            if only is not None and only != key:
                continue
            res['evaluations'] += 1
            casedoc = {'shard': shard, 'only': key}

            def V(what_kind, detail, what):
                res['violations'].append({'sig': 'C17|%s|%s|%s|%s' % (what_kind, proto, kind, detail),
                                          'what': '[%s %s %s %s] %s' % (proto, transport, kind, label, what), 'case': casedoc, 'count': 1})
            env = dict(os.environ)
            try:
                p = subprocess.run([sys.executable, '-c', 'from vf.props import c17; c17.child_main()'],
                                   input=json.dumps({'proto': proto, 'transport': transport, 'data': data.hex()}), env=env,
                                   stdout=subprocess.PIPE, stderr=subprocess.PIPE, text=True, timeout=60)
            except subprocess.TimeoutExpired:
                V('bomb-timeout', '', 'request processing did not finish within 60 s')
                continue
            line = [l for l in p.stdout.splitlines() if l.startswith('VFRESULT ')]
            if not line:
                V('bomb-child-died', 'rc=%s' % p.returncode, 'child process ended without a verdict: %s' % p.stderr[-300:])
                continue
            r = json.loads(line[0][9:])
            if r['escaped']:
                V('escape', '', 'exception escaped: %s' % r['escaped'])
                continue
            if r['seconds'] > 10:
                V('bomb-slow', '', 'took %.1f s' % r['seconds'])
            if r['rss_growth_mib'] > 256:
                V('bomb-memory', '', 'resident memory grew by %.0f MiB' % r['rss_growth_mib'])
            if r['max_arg_len'] > 100000 or r['out_len'] > 10 ** 6:
                V('bomb-expanded', '', 'expanded content reached user code (%d chars) / the response (%d bytes)' % (r['max_arg_len'], r['out_len']))
            faulted = r['fault'] is not None or (r['status'] and not str(r['status']).startswith('2'))
            if faulted and r['fault'] is not None and not str(r['fault']).startswith('Client'):
                V('bomb-non-client-fault', str(r['fault'])[:30], 'answered with %s' % r['fault'])
            res['outcomes']['bomb-' + ('fault' if faulted else 'accepted-unexpanded')] = res['outcomes'].get('bomb-' + ('fault' if faulted else 'accepted-unexpanded'), 0) + 1
            res['nontrivial'] += 1
            res['cov']['bomb_child_processes'] = res['cov'].get('bomb_child_processes', 0) + 1
            if not res['samples']:
                res['samples'].append({'kind': kind, 'label': label, 'proto': proto, 'seconds': r['seconds'], 'rss_growth_mib': r['rss_growth_mib']})
    from vf.props.c01 import compress
    return compress(res)


def replay(case):
    r = run_shard(case['shard'], only=case['only'])
    return r['violations']
