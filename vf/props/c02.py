"""C02 - dict-document wire fidelity (JSON, YAML, MessagePack, MessagePackRpc).

Bounded-exhaustive enumeration (E1): the level A / level B universe of C01 (minus XML-only positions) x the full
configuration product {JsonDocument, YamlDocument, MessagePackDocument (str and bin keys), MessagePackRpc} x
ignore_wrappers x complex_as {dict, list} x validator {None, soft}.  Requests are built by the reference codec
from the documented conventions and serialised with stdlib json / PyYAML / msgpack; responses are decoded with the
same third-party decoders."""
import json

from vf import tagged, universe, harness, spec, drv
from vf.ref import dictcodec, validity
from vf.props import c01

ID = 'C02'
LEVEL = 'exploration'
RULE = ('every (atom, position) program and every small shape x every conformant value x every accepted configuration; '
        'non-trivial when the function was entered with a non-None value in the slot under test; distinct by '
        '(program, configuration, value)')
ASSUMPTIONS = ['stdlib json, PyYAML safe_load/safe_dump and msgpack are the peer implementations',
               'conventions of DESIGN Appendix C (method name as single key, objects as maps or positional lists, '
               'decimals/dates/uuids as strings, bytes as base64 text or msgpack bin)']
FLOOR = {'quick': 2000, 'thorough': 20000}
POSITIONS = [p for p in universe.POSITIONS if p not in universe.XML_ONLY and p != 'bare']  # bare style: no documented dict convention


def configs(tier, wires=None):
    out = []
    for wire in wires or ['json', 'yaml', 'msgpack', 'msgpackrpc']:
        for iw in (True, False):
            for ca in ('dict', 'list'):
                for val in (None, 'soft'):
                    keyings = (True, False) if wire == 'msgpack' else (True,)
                    for tk in keyings:
                        out.append(dict(wire=wire, ignore_wrappers=iw, complex_as=ca, validator=val, text_keys=tk))
    return out


def bounds(tier):
    return {'atoms': len(universe.atoms()), 'positions': POSITIONS, 'configurations': len(configs(tier)),
            'values_per_atom': 8 if tier == 'quick' else 'full alphabet', 'levelB_max_fields': 2 if tier == 'quick' else 3,
            'yaml': 'level A only in the quick tier (PyYAML is ~10x slower)'}


def shards(tier):
    out = []
    for aid, at in universe.atoms(tier):
        if aid in universe.XML_ONLY_ATOMS:
            continue
        for pos in POSITIONS:
            if universe.program_for(at, pos) is None:
                continue
            out.append({'level': 'A', 'atom': aid, 'pos': pos, 'tier': tier})
    n = 2 if tier == 'quick' else 3
    shp = list(universe.shapes(n))
    per = 6 if tier == 'quick' else 10
    for i in range(0, len(shp), per):
        out.append({'level': 'B', 'n': n, 'lo': i, 'hi': min(len(shp), i + per), 'tier': tier})
    if tier == 'thorough':
        out.append({'level': 'U', 'tier': tier})
    for gid in universe.ALIAS_GIDS:
        out.append({'level': 'G', 'gid': gid, 'tier': tier})
    for first in HIER_METHODS:
        out.append({'level': 'I', 'first': first, 'tier': tier})
    # level S: two applications with different protocol configurations over the SAME model classes, used one after the other
    for ci in range(len(configs(tier))):
        out.append({'level': 'S', 'ci': ci, 'tier': tier})
    return out


def run_shared(shard, res, only=None):
    """every ordered pair of configurations (first, second) as two applications over one build; the nested-object call is
    made through the first, the second and the first again - what one protocol object learnt about a class must not decide
    for another"""
    tier = shard.get('tier', 'quick')
    cfgs = configs(tier)
    c1 = cfgs[shard['ci']]
    at = c01.atom_by_id('Integer')
    program = universe.program_for(at, 'field2')
    args, ret, ih, oh = universe.embed('field2', at, 5)
    for cj, c2 in enumerate(cfgs):
        if only is not None and only['cj'] != cj:
            continue
        b = spec.build(program)
        hs = [harness.DictHarness(program, built=b, **c1), harness.DictHarness(program, built=b, **c2)]
        res['cov']['programs'] += 1
        for step, hi in enumerate((0, 1, 0)):
            h = hs[hi]
            casedoc = {'level': 'S', 'shard': shard, 'cj': cj, 'cfg': h.cfg, 'step': step}
            oc = run_case(h, 'm', args, ret, {'site': 'S|%s' % ('first-application' if step == 0 else 'second-application' if step == 1 else 'first-application-again'), 'case': casedoc}, res)
            res['evaluations'] += 1
            res['outcomes'][oc] = res['outcomes'].get(oc, 0) + 1
            if oc == 'ok':
                res['nontrivial'] += 1
            elif oc not in ('positional-not-applicable', 'not-denotable'):
                break
        res['cov']['shared_class_config_pairs'] = res['cov'].get('shared_class_config_pairs', 0) + 1


# level I: every order in which one application meets the classes of a three-level hierarchy (what is remembered about
# a class - member lists, handler tables - must not depend on which of its relatives was met first)
HIER_METHODS = ['mb', 'ms', 'ml']


def hier_program():
    I, U = ['p', 'Integer', {}], ['p', 'Unicode', {}]
    cl = [{'n': 'Base', 'fields': [['b1', I], ['b2', U]]}, {'n': 'Sub', 'base': 'Base', 'fields': [['s1', I]]},
          {'n': 'Leaf', 'base': 'Sub', 'fields': [['t1', U], ['t2', I]]}]
    ms = [{'n': n, 'args': [['x', ['c', c, {}]], ['z', I]], 'ret': ['c', c, {}]} for n, c in zip(HIER_METHODS, ('Base', 'Sub', 'Leaf'))]
    return {'tns': universe.TNS, 'classes': cl, 'services': [{'n': 'S', 'methods': ms}]}


def hier_value(mname, salt):
    f = {'b1': salt, 'b2': 'b%d' % salt}
    if mname in ('ms', 'ml'):
        f['s1'] = salt + 10
    if mname == 'ml':
        f['t1'] = 't%d' % salt
        f['t2'] = salt + 20
    return tagged.Obj({'mb': 'Base', 'ms': 'Sub', 'ml': 'Leaf'}[mname], **f)


def run_hier(shard, res, only=None):
    import itertools
    tier = shard.get('tier', 'quick')
    program = hier_program()
    res['cov']['programs'] += 1
    depth = 3 if tier == 'quick' else 4
    for rest in itertools.product(HIER_METHODS, repeat=depth - 1):
        hist = [shard['first']] + list(rest)
        if only is not None and only['hist'] != hist:
            continue
        for cfg in configs(tier):
            if only is not None and only['cfg'] != cfg:
                continue
            h = harness.DictHarness(program, **cfg)
            for step, mname in enumerate(hist):
                v = hier_value(mname, step + 1)
                casedoc = {'level': 'I', 'shard': shard, 'hist': hist, 'cfg': cfg, 'step': step}
                oc = run_case(h, mname, [v, 7], v, {'site': 'I|%s|after-%s' % (mname, '+'.join(sorted(set(hist[:step]))) or 'nothing'), 'case': casedoc}, res)
                res['evaluations'] += 1
                res['outcomes'][oc] = res['outcomes'].get(oc, 0) + 1
                if oc == 'ok':
                    res['nontrivial'] += 1
                else:
                    break
        res['cov']['call_order_histories'] = res['cov'].get('call_order_histories', 0) + 1


FAMILY = [('Unsigned', 'int'), ('Integer', 'int'), ('Long', 'int'), ('Int', 'int'), ('Short', 'int'), ('Byte(', 'binary'),
          ('ByteArray', 'binary'), ('Byte', 'int'), ('Decimal', 'decimal'), ('Double', 'float'), ('Float', 'float'),
          ('Boolean', 'bool'), ('Unicode', 'text'), ('AnyUri', 'text'), ('Uuid', 'uuid'), ('DateTime', 'datetime'),
          ('Date', 'date'), ('Time', 'time'), ('Duration', 'duration'), ('Enum', 'enum'), ('Mandatory(Integer', 'int'),
          ('Mandatory(Unicode', 'text'), ('Mandatory(Date', 'date')]


def family(aid):
    for pfx, fam in FAMILY:
        if aid.startswith(pfx) or aid.startswith('Mandatory(' + pfx):
            return fam
    return aid


def coarse_site(site):
    """atom|pos|label -> family|pos|value class"""
    p = site.split('|')
    if p[0] in ('B', 'U'):
        return p[0]
    lab = p[2] if len(p) > 2 else ''
    vclass = lab if lab in ('none', 'empty', 'container-none', 'container-empty', 'none-member', 'nan', 'inf', 'neg-inf') else \
        'huge' if lab.startswith('huge') else 'value'
    return '%s|%s|%s' % (family(p[0]), p[1], vclass)


def run_case(h, mname, args, ret, ctx, res):
    b = h.b
    m = b.methods[mname]
    site = coarse_site(ctx['site'])

    def V(kind, detail, what):
        res['violations'].append({'sig': 'C02|%s|%s|%s%s' % (kind, h.label, site, ('|' + detail) if detail else ''),
                                  'what': '[%s validator=%s] %s' % (h.label, h.validator, what), 'case': ctx['case'], 'count': 1})
    # positional form is defined for fully populated objects only
    if h.cfg['complex_as'] == 'list' and not (fully_populated(args) and fully_populated(ret)):
        return 'positional-not-applicable'
    try:
        req = h.codec.request_bytes(m, args)
    except dictcodec.NotDenotable:
        return 'not-denotable'
    o = h.call_raw(mname, req, ret, None)
    if o.escaped is not None:
        V('escape', '%s@%s' % (type(o.escaped).__name__, o.escaped_where), 'exception escaped at stage %s: %r; request=%r' % (o.stage, o.escaped, req[:300]))
        return 'escape'
    calls = h.captured(mname)
    if o.fault is not None:
        V('refused', str(o.fault.faultcode) + ('|entered' if calls else ''), 'valid request answered with fault %s: %s; request=%r' % (
            o.fault.faultcode, str(o.fault.faultstring)[:200], req[:400]))
        return 'refused'
    if len(calls) != 1:
        V('invocations', str(len(calls)), 'function entered %d times' % len(calls))
        return 'invocations'
    outcome = 'ok'
    if not tagged.equal(args, calls[0][1]):
        V('args', '', 'sent %r, function received %r; request=%r' % (args, calls[0][1], req[:400]))
        outcome = 'args'
    try:
        kind, val = h.codec.parse_response(m, o.out, is_fault=False)
    except dictcodec.DecodeError as e:
        V('response-undecodable', '', 'response does not follow the conventions: %s; response=%r' % (e, o.out[:400]))
        return 'response-undecodable'
    if not tagged.equal(ret, val):
        V('result', '', 'function returned %r, response denotes %r; response=%r' % (ret, val, o.out[:400]))
        outcome = 'result'
    return outcome


def fully_populated(v):
    if v is None:
        return False
    if isinstance(v, tagged.Obj):
        return all(fully_populated(x) for x in v.f.values())
    if isinstance(v, (list, tuple)):
        return all(fully_populated(x) for x in v)
    return True


def run_program(program, cases, res, cfgs):
    m = program['services'][0]['methods'][0]
    mname = m['n']
    hs = []
    for cfg in cfgs:
        try:
            hs.append(harness.DictHarness(program, **cfg))
        except Exception as e:
            res['violations'].append({'sig': 'C02|build|%s|%s' % (cfg['wire'], type(e).__name__),
                                      'what': 'application cannot be built: %r' % (e,),
                                      'case': {'program': program, 'cfg': cfg, 'build_only': True}, 'count': 1})
    seen = set()
    for site, label, args, ret, ih, oh, casedoc, nontrivial in cases:
        for h in hs:
            ctx = {'site': site, 'case': dict(casedoc, cfg=h.cfg)}
            oc = run_case(h, mname, args, ret, ctx, res)
            res['evaluations'] += 1
            res['outcomes'][oc] = res['outcomes'].get(oc, 0) + 1
            if oc == 'ok' and nontrivial:
                k = (h.label, h.validator, json.dumps(casedoc.get('value', casedoc.get('args')), sort_keys=True, default=str))
                if k not in seen:
                    seen.add(k)
                    res['nontrivial'] += 1


def unicode_strings():
    """every Unicode scalar value, packed 4096 to a string (surrogates excluded)"""
    out, cur = [], []
    for cp in range(0x110000):
        if 0xD800 <= cp <= 0xDFFF:
            continue
        cur.append(chr(cp))
        if len(cur) == 4096:
            out.append(''.join(cur))
            cur = []
    if cur:
        out.append(''.join(cur))
    return out


def run_shard(shard):
    res = c01.new_res()
    tier = shard.get('tier', 'quick')
    if shard['level'] == 'I':
        run_hier(shard, res)
    elif shard['level'] == 'S':
        run_shared(shard, res)
    elif shard['level'] == 'G':
        program = universe.alias_program(shard['gid'])
        res['cov']['programs'] += 1
        cases = c01.cases_G(shard['gid'], tier)
        run_program(program, cases, res, configs(tier))
        res['cov']['aliased_graphs'] = len(cases)
        res['samples'].append({'program': program, 'case': cases[0][6]})
    elif shard['level'] == 'A':
        at = c01.atom_by_id(shard['atom'])
        program = universe.program_for(at, shard['pos'])
        res['cov']['programs'] += 1
        cases = [c for c in c01.cases_A(shard['atom'], shard['pos'], tier)]
        mn = validity.attrs_of(at).get('min_occurs', 0)
        # an absent array whose members are mandatory: the dict conventions do not say; XML-only case
        cases = [c for c in cases if not (shard['pos'] == 'array' and mn > 0 and c[1] == 'container-none')]
        run_program(program, cases, res, configs(tier))
        if cases:
            res['samples'].append({'program': program, 'case': cases[min(1, len(cases) - 1)][6]})
    elif shard['level'] == 'B':
        shp = list(universe.shapes(shard['n']))[shard['lo']:shard['hi']]
        cap = 60 if tier == 'quick' else 400
        wires = ['json', 'msgpack', 'msgpackrpc'] if tier == 'quick' else None
        for si, shape in enumerate(shp):
            program, root = universe.shape_program(shape, 'wrapped')
            res['cov']['programs'] += 1
            vals = universe.shape_assignments(program, root, cap)
            cases = []
            for vi, v in enumerate(vals):
                args = [v, 7]
                casedoc = {'level': 'B', 'shape': shape, 'style': 'wrapped', 'index': vi, 'args': tagged.enc(args)}
                cases.append(('B|%s' % c01.shape_sig(shape), 'B', args, v, None, None, casedoc, True))
            run_program(program, cases, res, configs(tier, wires))
            if si == 0 and cases:
                res['samples'].append({'shape': shape, 'case': cases[-1][6]})
    else:
        program = universe.program_for(['p', 'Unicode', {}], 'arg')
        res['cov']['programs'] += 1
        cases = []
        for i, s in enumerate(unicode_strings()):
            casedoc = {'level': 'U', 'index': i}
            cases.append(('U|all-scalars', 'U', [s, 7], s, None, None, casedoc, True))
        run_program(program, cases, res, [c for c in configs(tier) if c['validator'] is None and c['complex_as'] == 'dict'])
        res['cov']['unicode_scalar_values'] = 0x110000 - 2048
    return c01.compress(res)


def replay(case):
    res = c01.new_res()
    cfg = case['cfg']
    if case.get('build_only'):
        run_program(case['program'], [], res, [cfg])
        return res['violations']
    if case['level'] == 'I':
        run_hier(case['shard'], res, only=case)
        return res['violations']
    if case['level'] == 'S':
        run_shared(case['shard'], res, only=case)
        return res['violations']
    if case['level'] == 'A':
        at = c01.atom_by_id(case['atom'])
        program = universe.program_for(at, case['pos'])
        v = tagged.dec(case['value'])
        args, ret, ih, oh = universe.embed(case['pos'], at, v)
        site = '%s|%s|%s' % (case['atom'], case['pos'], c01.vlabel(case['label']))
    elif case['level'] == 'G':
        program = universe.alias_program(case['gid'])
        args = tagged.dec(case['args'])
        ret = args[0]
        site = 'G|%s' % case['gid']
    elif case['level'] == 'B':
        shape = c01._tuplify(case['shape'])
        program, root = universe.shape_program(shape, case['style'])
        args = tagged.dec(case['args'])
        ret = args[0]
        site = 'B|%s' % c01.shape_sig(shape)
    else:
        program = universe.program_for(['p', 'Unicode', {}], 'arg')
        s = unicode_strings()[case['index']]
        args, ret, site = [s, 7], s, 'U|all-scalars'
    mname = program['services'][0]['methods'][0]['n']
    h = harness.DictHarness(program, **cfg)
    run_case(h, mname, args, ret, {'site': site, 'case': case}, res)
    return res['violations']
