"""C09 - faults arrive intact, are classified correctly and never leak internals.

Bounded-exhaustive enumeration (E1): fault classes x fault codes x messages x details x raising method x every output
protocol x {ServerBase, WsgiApplication, loopback client}; and non-Fault exception types, each carrying a fresh secret
token in its arguments, its type name and a local variable.  Oracle: the reference fault decoder of the protocol gives
the code, message and detail that were raised; no result member is sent; the HTTP status is the documented one; for
non-Fault exceptions the client sees Server / 'Internal Error' and none of the secret tokens, the exception type name
or the word Traceback occur anywhere in the status line, the headers or the body."""
import itertools
import json

from lxml import etree

from vf import tagged, harness, spec, drv, universe, loopback
from vf.ref import xsdcodec, dictcodec
from vf.props.c10 import Runner

ID = 'C09'
LEVEL = 'exploration'
RULE = ('every (fault class, code, message, detail, raising method) and every (exception type with secret) x output protocol x '
        'transport; non-trivial when the user function raised and a response was produced; distinct by the full tuple')
ASSUMPTIONS = ['SOAP 1.2 fault codes are restricted to a Client/Server first segment (the protocol\'s vocabulary is closed)',
               'HttpRpc text faults carry code and message only; detail is not compared there']
FLOOR = {'quick': 1500, 'thorough': 10000}
TNS = universe.TNS
I = ['p', 'Integer', {}]

PROTOS = ['xml', 'soap11', 'soap12', 'json', 'yaml', 'msgpack', 'msgpackrpc', 'http']
CODES = ['Client', 'Server', 'Client.A', 'Server.A.B.C', 'Clientele', 'Other.X']
MESSAGES = [('ascii', 'plain message'), ('non-ascii', 'm\xe9ssage ☃ \U0001F600'), ('markup', '<b>&amp; "q" \'s\' ]]>'), ('empty', '')]
DETAILS = [('none', None), ('flat', {'k': 'v', 'n': '1'}), ('nested', {'outer': {'inner': 'x', 'more': {'deep': 'y'}}}),
           # leaves that are not strings, the falsy ones included (compared as their text)
           # nested dicts that are followed by further members
           ('nested-then-more', {'where': {'line': '3', 'col': '4'}, 'hint': 'retry', 'again': {'x': {'y': 'z'}}, 'last': 'end'}),
           ('scalars', {'count': 0, 'ratio': 0.0, 'flag': False, 'n': 5, 'on': True, 'nested': {'zero': 0, 'one': 1}})]
BUILTIN = ['ResourceNotFoundError', 'RequestTooLongError', 'RequestNotAllowed', 'InvalidCredentialsError', 'ValidationError',
           'InternalError', 'ArgumentError']
EXC_TYPES = ['KeyError', 'ValueError', 'RuntimeError', 'ZeroDivisionError', 'AssertionError', 'UnicodeDecodeError', 'Custom', 'StrRaises',
             'OSError', 'RecursionError']
STATUS = {'ResourceNotFoundError': '404', 'RequestTooLongError': '413', 'RequestNotAllowed': '405', 'InvalidCredentialsError': '401'}


def program():
    ms = [{'n': n, 'args': [['a', I]], 'ret': I, 'throws': ['PubFault', 'CodedFault']} for n in ('m1', 'm2', 'm3')]
    return {'tns': TNS, 'classes': [], 'faults': [{'n': 'PubFault'}, {'n': 'CodedFault', 'code': 'Client.Coded'}],
            'services': [{'n': 'S', 'methods': ms}]}


def fault_cases(tier):
    out = []
    for cls in ('Fault', 'PubFault'):
        for code in CODES:
            for (ml, msg), (dl, det) in itertools.product(MESSAGES, DETAILS):
                if tier == 'quick' and cls == 'PubFault' and (ml not in ('ascii', 'non-ascii') or dl in ('nested', 'scalars', 'nested-then-more')):
                    continue
                out.append({'kind': 'fault', 'cls': cls, 'code': code, 'ml': ml, 'msg': msg, 'dl': dl, 'detail': det})
    for (ml, msg) in MESSAGES:
        out.append({'kind': 'fault', 'cls': 'CodedFault', 'code': 'Client.Coded', 'ml': ml, 'msg': msg, 'dl': 'none', 'detail': None})
    for b in BUILTIN:
        for (ml, msg) in MESSAGES[:2]:
            out.append({'kind': 'fault', 'cls': b, 'code': None, 'ml': ml, 'msg': msg, 'dl': 'none', 'detail': None})
    # generated subclasses of the dedicated errors that refine the code with sub-codes (class attribute CODE, which the
    # constructors pass on) or overwrite faultcode on the instance: still the dedicated error, still its HTTP status
    for b in sorted(STATUS):
        for how in ('CODE', 'instance'):
            for sub in ('{code}.User', '{code}.A.B', 'Client.Other', 'Server.Custom'):
                out.append({'kind': 'fault', 'cls': b, 'sub': sub, 'how': how, 'code': None, 'ml': 'ascii', 'msg': 'plain message',
                            'dl': 'none', 'detail': None})
    return out


def exc_cases(tier):
    return [{'kind': 'exc', 'type': t} for t in EXC_TYPES]


def make_exc_factory(b, case, secret):
    """-> (factory, expected dict or None)"""
    from spyne.model.fault import Fault
    import spyne.error as E
    if case['kind'] == 'fault':
        cls = case['cls']
        msg, det = case['msg'], case['detail']
        if cls == 'Fault':
            mk = lambda: Fault(case['code'], msg, detail=det)
        elif cls in ('PubFault', 'CodedFault'):
            mk = lambda: b.faults[cls](case['code'], msg, detail=det)
        elif cls == 'ResourceNotFoundError':
            mk = lambda: E.ResourceNotFoundError(msg)
        elif cls == 'RequestTooLongError':
            mk = lambda: E.RequestTooLongError(msg or 'Request too long')
        elif cls == 'RequestNotAllowed':
            mk = lambda: E.RequestNotAllowed(msg)
        elif cls == 'InvalidCredentialsError':
            mk = lambda: E.InvalidCredentialsError(msg or 'nope')
        elif cls == 'ValidationError':
            mk = lambda: E.ValidationError(msg)
        elif cls == 'InternalError':
            mk = lambda: E.InternalError(RuntimeError(secret))
        elif cls == 'ArgumentError':
            mk = lambda: E.ArgumentError(msg)
        if case.get('sub'):
            base = getattr(E, cls)
            code = case['sub'].format(code=base.CODE)
            if case['how'] == 'CODE':
                sub_cls = type(str('Sub' + cls), (base,), {'CODE': code})
                mk0 = mk
                mk = lambda: sub_cls(msg)
            else:
                sub_cls = type(str('Sub' + cls), (base,), {})

                def mk():
                    f = sub_cls(msg)
                    f.faultcode = code
                    return f
        inst = mk()
        exp = {'code': inst.faultcode, 'string': inst.faultstring, 'detail': inst.detail}
        return mk, exp
    t = case['type']

    def raiser():
        local_secret = 'LOCAL-' + secret   # noqa: a local variable that a traceback dump would reveal
        if t == 'KeyError':
            return KeyError(secret)
        if t == 'ValueError':
            return ValueError('bad value ' + secret)
        if t == 'RuntimeError':
            return RuntimeError(secret, {'k': secret})
        if t == 'ZeroDivisionError':
            return ZeroDivisionError(secret)
        if t == 'AssertionError':
            return AssertionError(secret)
        if t == 'UnicodeDecodeError':
            return UnicodeDecodeError('utf8', secret.encode('ascii'), 0, 1, secret)
        if t == 'OSError':
            return OSError(2, secret, '/etc/' + secret)
        if t == 'RecursionError':
            return RecursionError(secret)
        if t == 'Custom':
            return type(str('Secret' + secret.replace('-', '') + 'Error'), (Exception,), {})(secret)
        if t == 'StrRaises':
            class Nasty(Exception):
                def __str__(self):
                    raise RuntimeError(secret)
                __repr__ = __str__
            return Nasty(secret)
        raise ValueError(t)
    return raiser, None


def bounds(tier):
    return {'fault_cases': len(fault_cases(tier)), 'exception_types': EXC_TYPES, 'protocols': PROTOS, 'raising_methods': ['m1', 'm3'],
            'transports': ['ServerBase', 'WsgiApplication', 'loopback client (xml, soap11, soap12)']}


def shards(tier):
    out = []
    for proto in PROTOS:
        variants = [None]
        if proto in ('json', 'msgpack'):
            # (the positional fault form of complex_as=list is a writer of its own)
            variants = [None, {'complex_as': 'list'}]
        if tier == 'thorough' and proto in ('json', 'yaml', 'msgpack', 'msgpackrpc'):
            variants = [None, {'ignore_wrappers': False}, {'complex_as': 'list'}, {'ignore_wrappers': False, 'complex_as': 'list'}]
        for var in variants:
            for part in range(4):
                out.append({'proto': proto, 'part': part, 'parts': 4, 'tier': tier, 'var': var})
    return out


def make_h(proto, var=None):
    prog = program()
    if proto in ('xml', 'soap11', 'soap12'):
        return 'xml', harness.XmlHarness(prog, proto, None)
    if proto == 'http':
        return 'http', harness.HttpHarness(prog)
    return 'dict', harness.DictHarness(prog, proto, None, **(var or {}))


def detail_to_dict(el):
    """detail element -> nested dict (inverse of root_dict_to_etree for string leaves)"""
    def conv(e):
        kids = [c for c in e if isinstance(c.tag, str)]
        if not kids:
            return e.text if e.text is not None else ''
        return {etree.QName(c).localname: conv(c) for c in kids}
    if el is None:
        return None
    if isinstance(el, dict):
        return el
    d = conv(el)
    return d if isinstance(d, dict) else None


def decode(fam, h, out):
    """-> (code, string, detail) or None"""
    try:
        if fam == 'http':
            t = out.decode('utf8')
            code, _, rest = t.partition('\n\n')
            return code, rest, None
        if fam == 'xml':
            root = etree.fromstring(out)
            env = xsdcodec.envelope_ns(h.proto)
            el = root
            if env:
                el = root.find(xsdcodec.q(env, 'Body'))[0]
            if etree.QName(el).localname != 'Fault':
                return None
            f = xsdcodec.parse_fault(el)
            code = f.code or ''
            if h.proto == 'soap12':
                base = code.split(':', 1)[-1]
                code = {'Sender': 'Client', 'Receiver': 'Server'}.get(base, base)
                if f.subcodes:
                    code += '.' + '.'.join(str(x) for x in f.subcodes)
            elif ':' in code:
                pfx, local = code.split(':', 1)
                if el.nsmap.get(pfx) in (xsdcodec.SOAP11, xsdcodec.SOAP12) or pfx in ('soap11env', 'senv', 'soap12env'):
                    code = local
            return code, f.string, detail_to_dict(f.detail)
        d = h.codec.loads(out)
        f = h.codec.fault_of(d, known_fault=True)
        if f is None:
            return None
        det = f.detail
        if det in ('', b''):
            det = None
        return f.code, f.string, det
    except Exception:
        return None


def norm_detail(d):
    if d is None:
        return None
    if isinstance(d, dict):
        return {(k.decode('utf8') if isinstance(k, bytes) else k): norm_detail(v) for k, v in d.items()}
    if isinstance(d, bytes):
        return d.decode('utf8')
    if isinstance(d, (bool, int, float)):
        return str(d)
    return d


def run_shard(shard, only=None):
    res = {'evaluations': 0, 'nontrivial': 0, 'outcomes': {}, 'violations': [], 'samples': [], 'cov': {'programs': 1}, 'notes': {}}
    tier = shard['tier']
    proto = shard['proto']
    fam, h = make_h(proto, shard.get('var'))
    b = h.b
    cases = fault_cases(tier) + exc_cases(tier)
    cases = [c for i, c in enumerate(cases) if i % shard['parts'] == shard['part']]
    transports = ['wsgi'] if fam == 'http' else ['server', 'wsgi']
    client = None
    if proto in ('xml', 'soap11', 'soap12'):
        capp = spec.make_app(b, harness.make_proto(proto), harness.make_proto(proto))

        def send(req):
            o = drv.call_server(h.srv, req)
            if o.escaped is not None:
                raise o.escaped
            return o.out
        client = loopback.make_client(capp, send)
        transports.append('client')
    counter = [0]
    for ci, case in enumerate(cases):
        if case['kind'] == 'fault' and proto == 'soap12' and (case['code'] or 'Client').split('.')[0] not in ('Client', 'Server'):
            continue
        for mname in (('m1', 'm3') if tier == 'quick' else ('m1', 'm2', 'm3')):
            for transport in transports:
                key = [json.dumps(case, sort_keys=True), mname, transport]
                if only is not None and only != key:
                    continue
                counter[0] += 1
                secret = 'SECRET-%s-%d-%d' % (proto.upper(), shard['part'], counter[0])
                mk, exp = make_exc_factory(b, case, secret)
                casedoc = {'shard': shard, 'only': key}
                label = (case['cls'] + ('<sub>' if case.get('sub') else '')) if case['kind'] == 'fault' else 'exc:' + case['type']

                def V(kind, detail, what):
                    res['violations'].append({'sig': 'C09|%s|%s|%s|%s%s' % (kind, proto, transport, label, ('|' + detail) if detail else ''),
                                              'what': '[%s %s %s] %s' % (proto, transport, mname, what), 'case': casedoc, 'count': 1})
                b.rec.reset()
                b.rec.script[mname] = ('raise', mk)
                res['evaluations'] += 1
                status = headers = None
                if transport == 'client':
                    from spyne.model.fault import Fault
                    try:
                        r = getattr(client.service, mname)(5)
                        V('client-no-fault', '', 'client call returned %r instead of raising' % (r,))
                        continue
                    except Fault as f:
                        got = (f.faultcode, f.faultstring, norm_detail(detail_to_dict(f.detail)) if f.detail is not None else None)
                        body = client.last_response or b''
                    except Exception as e:
                        V('client-raises', type(e).__name__ + '@' + drv.innermost_spyne_frame(e), 'client raised %r while reading the fault' % (e,))
                        continue
                else:
                    if fam == 'http':
                        o = h.get(mname, 'a=5', script=('raise', mk))
                    elif transport == 'wsgi':
                        m = b.methods[mname]
                        req = (xsdcodec.build_request(h.codec, m, [5], proto) if fam == 'xml' else h.codec.request_bytes(m, [5]))
                        rn = Runner(fam, h, 'wsgi')
                        env = drv.environ('POST', '/', '', req, content_type='text/xml; charset=utf-8' if fam == 'xml' else 'application/octet-stream')
                        b.rec.reset()
                        b.rec.script[mname] = ('raise', mk)
                        o = drv.call_wsgi(rn.wsgi, env)
                    else:
                        m = b.methods[mname]
                        req = (xsdcodec.build_request(h.codec, m, [5], proto) if fam == 'xml' else h.codec.request_bytes(m, [5]))
                        o = h.call_raw(mname, req, script=('raise', mk))
                    if o.escaped is not None:
                        V('escape', '%s@%s' % (type(o.escaped).__name__, o.escaped_where), 'exception escaped: %r' % (o.escaped,))
                        continue
                    if len(b.rec.calls) != 1:
                        V('invocations', str(len(b.rec.calls)), 'function entered %d times' % len(b.rec.calls))
                        continue
                    body = o.out or b''
                    status, headers = o.status, o.headers
                    dec = decode(fam, h, body)
                    if dec is None:
                        V('undecodable', '', 'response is not a fault document of the protocol: %r' % (body[:300],))
                        continue
                    got = (dec[0], dec[1], norm_detail(dec[2]))
                oc = 'ok'
                if transport == 'client' and isinstance(got[0], str) and ':' in got[0]:
                    # Spyne's client hands the envelope QName through: one defect, one signature
                    wantcode = exp['code'] if exp is not None else 'Server'
                    pfx, local = got[0].split(':', 1)
                    local12 = local.replace('Sender', 'Client', 1).replace('Receiver', 'Server', 1) if proto == 'soap12' else local
                    if local12 == wantcode:
                        res['violations'].append({'sig': 'C09|client-code-keeps-envelope-prefix|%s' % proto,
                                                  'what': '[%s loopback client] raised code %r, client sees %r' % (proto, wantcode, got[0]),
                                                  'case': casedoc, 'count': 1})
                        got = (wantcode, got[1], got[2])
                if exp is not None:
                    want = (exp['code'], exp['string'], norm_detail(exp['detail']))
                    if got[0] != want[0]:
                        V('code', case['code'] or case['cls'], 'raised code %r, client sees %r' % (want[0], got[0]))
                        oc = 'code'
                    if got[1] != want[1]:
                        V('message', case['ml'], 'raised message %r, client sees %r' % (want[1], got[1]))
                        oc = 'message'
                    if fam != 'http' and got[2] != want[2]:
                        V('detail', case['dl'], 'raised detail %r, client sees %r' % (want[2], got[2]))
                        oc = 'detail'
                else:
                    if got[0] != 'Server' or got[1] != 'Internal Error':
                        V('generic-fault', '', 'non-Fault exception answered with (%r, %r) instead of (Server, Internal Error)' % (got[0], got[1]))
                        oc = 'generic'
                    hay = body.decode('utf8', 'replace') + ' ' + str(status) + ' ' + str(headers)
                    for needle, nl in [(secret, 'secret'), ('Traceback', 'traceback'), (case['type'] if case['type'] not in ('Custom', 'StrRaises') else 'Secret', 'type-name'),
                                       ('Nasty', 'type-name'), ('LOCAL-', 'local-variable')]:
                        if needle in hay:
                            V('leak', nl, 'response reveals %s (%r): %r' % (nl, needle, hay[:300]))
                            oc = 'leak'
                if b'Result' in body and transport != 'client':
                    V('result-sent', '', 'a result member is present in a fault response: %r' % (body[:200],))
                if transport == 'wsgi' and not isinstance(status, str):
                    V('http-status', 'not-a-status-line', 'start_response was called with status %r' % (status,))
                    oc = 'status'
                elif status is not None:
                    st = status[:3]
                    if proto in ('soap11', 'soap12'):
                        wst = '500'
                    elif case['kind'] == 'fault' and case['cls'] in STATUS:
                        wst = STATUS[case['cls']]
                    elif case['kind'] == 'fault' and (exp['code'] == 'Client' or exp['code'].startswith('Client.')):
                        wst = '400'
                    else:
                        wst = '500'
                    if st != wst:
                        V('http-status', '%s-not-%s' % (st, wst), 'HTTP status %s, documented %s for %s' % (status, wst, exp['code'] if exp else 'a non-Fault exception'))
                        oc = 'status'
                    if not isinstance(status, str) or any(not isinstance(k, str) or not isinstance(v, str) for k, v in headers or []):
                        V('header-types', '', 'status/headers are not str: %r %r' % (status, headers))
                res['outcomes'][oc] = res['outcomes'].get(oc, 0) + 1
                res['nontrivial'] += 1
                if not res['samples']:
                    res['samples'].append({'proto': proto, 'transport': transport, 'case': {k: v for k, v in case.items()}, 'decoded': [str(x) for x in got]})
    from vf.props.c01 import compress
    return compress(res)


def replay(case):
    r = run_shard(case['shard'], only=case['only'])
    return r['violations']
