"""C11 - a request runs exactly the method it names.

Bounded-exhaustive enumeration (E1): applications with 2-4 services whose method names come from an adversarial pool
(case variants, prefixes, suffixes, a dotted name, a homoglyph), with and without custom operation / in-message
names; EVERY permutation of the service list; every protocol's way of naming a method (XML root tag with namespace,
SOAP body child, JSON/YAML/MessagePack single key, msgpack-rpc name field, HttpRpc URL path); for each registered
name and each near-miss (case flips, every one-character prefix / suffix / deletion, another namespace, unqualified,
empty).  Oracle: per-function invocation records - a registered name runs exactly the function registered for it,
the same one under every permutation; a near-miss runs nothing and yields a not-found Client fault (404 over HTTP);
colliding name sets are rejected when the application is constructed."""
import itertools
import json

from lxml import etree

from vf import harness, spec, drv, universe
from vf.ref import xsdcodec

ID = 'C11'
LEVEL = 'exploration'
RULE = ('every (application layout, service permutation, naming channel, name) with name ranging over all registered names and all '
        'near-misses; non-trivial when the request was processed (function ran or fault returned); distinct by the full tuple')
ASSUMPTIONS = ['HttpPattern: a path matching a pattern address completely (and its verb) runs that method, anything else is named by its last segment']
FLOOR = {'quick': 3000, 'thorough': 30000}
TNS = universe.TNS
I = ['p', 'Integer', {}]
POOL = ['get', 'Get', 'GET', 'get_', '_get', 'getx', 'ge', 'get.x', 'geт']


def M(name, key, **kw):
    d = {'n': name, 'key': key, 'args': [], 'ret': I}
    if kw:
        d['kw'] = kw
    return d


def layouts(tier):
    """[(layout id, services)] - each method has a unique key (its identity for the oracle) and a public name"""
    L = []
    L.append(('two-case', [('S1', [M('get', 'S1.get'), M('Get', 'S1.Get')]), ('S2', [M('GET', 'S2.GET'), M('get_', 'S2.get_')])]))
    L.append(('three-mixed', [('S1', [M('get', 'S1.get'), M('_get', 'S1._get'), M('getx', 'S1.getx')]),
                             ('S2', [M('ge', 'S2.ge'), M('get.x', 'S2.get.x')]),
                             ('S3', [M('geт', 'S3.homoglyph'), M('Get', 'S3.Get')])]))
    L.append(('custom-names', [('S1', [M('f1', 'S1.f1', _operation_name='get'), M('f2', 'S1.f2', _in_message_name='Get')]),
                               ('S2', [M('get_', 'S2.get_'), M('getx', 'S2.getx'), M('f1x', 'S2.f1x', _operation_name='f1')])]))
    # auxiliary services: methods that answer to the name of a primary method and run after it
    L.append(('aux', [('S1', [M('get', 'S1.get'), M('getx', 'S1.getx')]), ('A1', [M('get', 'A1.get'), M('Get', 'A1.Get')], 'aux'),
                      ('S2', [M('Get', 'S2.Get'), M('ge', 'S2.ge')])]))
    L.append(('two-aux', [('A1', [M('get', 'A1.get')], 'aux'), ('S1', [M('get', 'S1.get'), M('get_', 'S1.get_')]),
                          ('A2', [M('get', 'A2.get'), M('get_', 'A2.get_')], 'aux')]))
    # two different service classes that carry the same class name (what a service factory function produces)
    L.append(('same-named-services', [('S', [M('get', 'Sa.get'), M('getx', 'Sa.getx')]), ('S', [M('Get', 'Sb.Get'), M('ge', 'Sb.ge')]),
                                      ('S2', [M('get_', 'S2.get_')])]))
    if tier == 'thorough':
        L.append(('four', [('S1', [M('get', 'S1.get'), M('ge', 'S1.ge')]), ('S2', [M('Get', 'S2.Get'), M('getx', 'S2.getx')]),
                           ('S3', [M('GET', 'S3.GET'), M('_get', 'S3._get')]), ('S4', [M('get_', 'S4.get_'), M('get.x', 'S4.get.x')])]))
    return L


def collisions():
    """layouts that must be rejected at construction"""
    C = []
    C.append(('same-name-two-services', [('S1', [M('get', 'S1.get')]), ('S2', [M('get', 'S2.get')])]))
    C.append(('operation-name-vs-name', [('S1', [M('f1', 'S1.f1', _operation_name='get')]), ('S2', [M('get', 'S2.get')])]))
    C.append(('in-message-name-vs-name', [('S1', [M('f1', 'S1.f1', _in_message_name='get')]), ('S2', [M('get', 'S2.get')])]))
    # a second primary method behind an auxiliary one: wrapper messages in another namespace / custom operation name so
    # that nothing but the routing table can notice the clash
    C.append(('primary-aux-primary', [('S1', [M('get', 'S1.get')]), ('A1', [M('get', 'A1.get')], 'aux'),
                                      ('S2', [M('get', 'S2.get', _in_message_name='{urn:vf:beta}get', _out_message_name='{urn:vf:beta}getResponse')])]))
    C.append(('primary-aux-aux-primary', [('S1', [M('get', 'S1.get')]), ('A1', [M('get', 'A1.get')], 'aux'), ('A2', [M('get', 'A2.get')], 'aux'),
                                          ('S2', [M('get', 'S2.get', _in_message_name='{urn:vf:beta}get', _out_message_name='{urn:vf:beta}getResponse')])]))
    C.append(('same-named-services-same-method', [('S', [M('get', 'Sa.get')]), ('S', [M('get', 'Sb.get')])]))
    # the same clashes inside ONE service class (both declaration orders)
    C.append(('one-service-operation-name-vs-name', [('S1', [M('f1', 'S1.f1', _operation_name='get'), M('get', 'S1.get')])]))
    C.append(('one-service-name-vs-operation-name', [('S1', [M('get', 'S1.get'), M('f1', 'S1.f1', _operation_name='get')])]))
    C.append(('one-service-two-operation-names', [('S1', [M('f1', 'S1.f1', _operation_name='op'), M('f2', 'S1.f2', _operation_name='op')])]))
    C.append(('one-service-in-message-name-vs-name', [('S1', [M('get', 'S1.get'), M('f1', 'S1.f1', _in_message_name='get')]), ('S2', [M('ge', 'S2.ge')])]))
    C.append(('two-operation-names', [('S1', [M('f1', 'S1.f1', _operation_name='op')]), ('S2', [M('f2', 'S2.f2', _operation_name='op')])]))
    return C


# ------------------------------------------------------------------ HttpPattern routing

U = ['p', 'Unicode', {}]


def pattern_layout():
    """methods reachable through URL patterns, some of them published under another name than their function's"""
    def MP(name, key, patterns, args=(), **kw):
        d = M(name, key, **kw)
        d['patterns'] = patterns
        d['args'] = [list(a) for a in args]
        return d
    return [('S1', [MP('report', 'S1.report', [{'address': '/v2/report'}], _in_message_name='report_v2', _out_message_name='report_v2Response'),
                    MP('f1', 'S1.f1', [{'address': '/op/one'}, {'address': '/op/1', 'verb': 'GET'}], _operation_name='op1')]),
            ('S2', [M('report', 'S2.report'), M('one', 'S2.one'), M('f1x', 'S2.f1x')]),
            ('S3', [MP('item', 'S3.item', [{'address': '/items/<id>'}], args=[('id', U)]),
                    MP('items', 'S3.items', [{'address': '/items'}]),
                    # a literal address that the placeholder pattern above matches as well: the literal one wins
                    MP('itemsall', 'S3.itemsall', [{'address': '/items/all'}]),
                    MP('delonly', 'S3.delonly', [{'address': '/submit', 'verb': 'DELETE'}])])]


def pattern_regex(address):
    import re
    return re.compile(''.join('[^/]*' if part.startswith('<') else re.escape(part) for part in re.split(r'(<[^>]*>)', address)) + r'\Z')


def pattern_reference(services, verb, path):
    """-> key of the function that must run, or None.  Documented semantics: a request whose path matches the address
    of a pattern completely (and its verb, if the pattern names one) runs that pattern's method; otherwise the last path
    segment names the method"""
    import re
    hits = []
    for sv in services:
        for m in sv[1]:
            for p in m.get('patterns') or []:
                if p.get('verb') and not re.fullmatch(p['verb'], verb):
                    continue
                if pattern_regex(p['address']).match(path):
                    hits.append(('<' in p['address'], m['key']))
    if hits:
        return sorted(hits)[0][1]
    last = path.split('/')[-1]
    for sv in services:
        for m in sv[1]:
            if public_name(m) == last:
                return m['key']
    return None


def pattern_paths(services):
    out = set()
    addrs = [p['address'] for sv in services for m in sv[1] for p in m.get('patterns') or []]
    for a in addrs:
        inst = a.replace('<id>', '42')
        out.add(inst)
        for v in (inst.upper(), inst + '/', inst + 'x', '/x' + inst, inst[:-1], inst + '/extra', '/' + inst, inst.replace('/', '//', 1),
                  inst.rsplit('/', 1)[0] + '/'):
            out.add(v)
        if '<id>' in a:
            out.add(a.replace('<id>', ''))
            out.add(a.replace('<id>', 'a/b'))
    for sv in services:
        for m in sv[1]:
            out.add('/' + public_name(m))
            out.add('/' + m['n'])
            out.add('/zz/' + public_name(m))
    return sorted(x for x in out if x.startswith('/'))


def run_patterns(shard, res, only):
    from spyne.server.wsgi import WsgiApplication
    services = pattern_layout()
    paths = pattern_paths(services)
    for perm in itertools.permutations(range(len(services))):
        svs = [services[i] for i in perm]
        try:
            b = spec.build(program_of(svs))
            app = spec.make_app(b, harness.make_proto('http'), harness.make_proto('http'))
            wsgi = WsgiApplication(app)
        except Exception as e:
            res['violations'].append({'sig': 'C11|build|patterns|%s' % type(e).__name__, 'what': 'application with HttpPatterns cannot be built: %r' % (e,),
                                      'case': {'shard': shard, 'only': ['build', list(perm)]}, 'count': 1})
            continue
        res['cov']['programs'] += 1
        res['cov']['permutations'] += 1
        for verb in ('GET', 'DELETE'):   # (POST / PUT / PATCH bodies are parsed with werkzeug, which is not installed)
            for path in paths:
                key = [list(perm), verb, path]
                if only is not None and only != key:
                    continue
                want = pattern_reference(svs, verb, path)
                b.rec.reset()
                for k in b.methods:
                    b.rec.script[k] = ('ret', 1)
                # (form bodies need werkzeug, which is not installed: POST requests carry no body and no content type)
                env = drv.environ(verb, path, '', b'', content_type=None, content_length=None if verb == 'GET' else 0)
                o = drv.call_wsgi(wsgi, env)
                calls = [c[0] for c in b.rec.calls]
                res['evaluations'] += 1
                casedoc = {'shard': shard, 'only': key}

                def V(kind, detail, what):
                    res['violations'].append({'sig': 'C11|%s|http-pattern|%s' % (kind, detail),
                                              'what': '[HttpPattern routing, perm=%s] %s %s: %s' % (list(perm), verb, path, what), 'case': casedoc, 'count': 1})
                if o.escaped is not None:
                    V('escape', '%s@%s' % (type(o.escaped).__name__, o.escaped_where), 'exception escaped: %r' % (o.escaped,))
                    continue
                res['nontrivial'] += 1
                if want is not None:
                    if calls != [want]:
                        V('wrong-function', 'expected:%s' % want, 'expected exactly [%s] to run, ran %s (status %s)' % (want, calls, o.status))
                    else:
                        res['outcomes']['pattern-dispatched'] = res['outcomes'].get('pattern-dispatched', 0) + 1
                else:
                    if calls:
                        V('near-miss-ran', 'pattern', 'no pattern and no method name matches, yet %s ran' % calls)
                    elif (o.status or '')[:3] != '404':
                        V('not-found-status', (o.status or '')[:3], 'HTTP status %s for a path that matches nothing' % o.status)
                    else:
                        res['outcomes']['pattern-not-found'] = res['outcomes'].get('pattern-not-found', 0) + 1


def run_pattern_histories(shard, res, only):
    """every ordered pair of pattern addresses as a two-request history on a fresh transport object: what the first request
    matched must not decide what the second one runs"""
    from spyne.server.wsgi import WsgiApplication
    services = pattern_layout()
    exact = sorted(set(p['address'].replace('<id>', '42') for sv in services for m in sv[1] for p in m.get('patterns') or []))
    b = spec.build(program_of(services))
    app = spec.make_app(b, harness.make_proto('http'), harness.make_proto('http'))
    res['cov']['programs'] += 1
    for p1, p2 in itertools.product(exact, repeat=2):
        key = ['history', p1, p2]
        if only is not None and only != key:
            continue
        wsgi = WsgiApplication(app)
        ran = []
        for path in (p1, p2):
            b.rec.reset()
            for k in b.methods:
                b.rec.script[k] = ('ret', 1)
            o = drv.call_wsgi(wsgi, drv.environ('GET', path, '', b'', content_type=None, content_length=None))
            ran.append([c[0] for c in b.rec.calls])
        res['evaluations'] += 1
        want = [[x] if x is not None else [] for x in (pattern_reference(services, 'GET', p1), pattern_reference(services, 'GET', p2))]
        if ran != want:
            res['violations'].append({'sig': 'C11|wrong-function|http-pattern-history|%s' % ('second' if ran[0] == want[0] else 'first'),
                                      'what': '[HttpPattern routing] GET %s then GET %s on one transport ran %s, expected %s' % (p1, p2, ran, want),
                                      'case': {'shard': shard, 'only': key}, 'count': 1})
        else:
            res['nontrivial'] += 1
            res['outcomes']['pattern-history'] = res['outcomes'].get('pattern-history', 0) + 1


def public_name(m):
    kw = m.get('kw') or {}
    return kw.get('_in_message_name') or kw.get('_operation_name') or m['n']


def program_of(services):
    return {'tns': TNS, 'classes': [], 'services': [{'n': s[0], 'methods': s[1], 'aux': len(s) > 2} for s in services]}


def near_misses(name, registered):
    out = set()
    for v in (name.upper(), name.lower(), name.capitalize(), name.swapcase(), name.title()):
        out.add(v)
    for c in ('x', '_', 'G', 'g', '0', '.', 'т'):
        out.add(c + name)
        out.add(name + c)
    for i in range(len(name)):
        out.add(name[:i] + name[i + 1:])
    out.add(name + 'Response')
    out.add(name + name)
    # bytes that are not UTF-8 (only a URL path can carry them; written as surrogate escapes here)
    out.add(name + '\udcff')
    out.add('\udcfe' + name)
    out.add(name[:2] + '\udcc3' + name[2:])
    out.add('')
    out.add(' ' + name)
    return sorted(x for x in out if x not in registered)


# ('http-mounted': the application is mounted under a prefix, SCRIPT_NAME=/api/v1; 'http-script-name': the method name is the
# last segment of the MOUNT POINT and PATH_INFO is empty - the request names no method)
CHANNELS = ['xml', 'soap11', 'soap12', 'json', 'yaml', 'msgpack', 'msgpackrpc', 'http', 'json-wsgi', 'http-mounted', 'http-script-name']


def xml_name_ok(n):
    if not n:
        return False
    try:
        etree.Element('{%s}%s' % (TNS, n))
        return True
    except ValueError:
        return False


def build_request(channel, name, variant):
    """-> bytes / (path) ; variant in qualified | other-ns | unqualified"""
    if not channel.startswith('http') and any(0xDC80 <= ord(c) <= 0xDCFF for c in name):
        return None
    if channel in ('xml', 'soap11', 'soap12'):
        if not xml_name_ok(name):
            return None
        ns = {'qualified': TNS, 'other-ns': 'urn:some:other', 'unqualified': None}[variant]
        el = etree.Element(xsdcodec.q(ns, name))
        env = xsdcodec.envelope_ns(channel)
        if env:
            doc = etree.Element(xsdcodec.q(env, 'Envelope'))
            etree.SubElement(doc, xsdcodec.q(env, 'Body')).append(el)
            el = doc
        return etree.tostring(el, encoding='utf-8')
    if variant != 'qualified':
        return None
    if channel in ('json', 'json-wsgi'):
        return json.dumps({name: {}}).encode('utf8')
    if channel == 'yaml':
        import yaml
        return yaml.safe_dump({name: {}}, allow_unicode=True).encode('utf8')
    if channel == 'msgpack':
        import msgpack
        return msgpack.packb({name: {}}, use_bin_type=True)
    if channel == 'msgpackrpc':
        import msgpack
        return msgpack.packb([0, 1, name, []], use_bin_type=True)
    if channel.startswith('http'):
        # PEP 3333: PATH_INFO is the unquoted path, its bytes decoded as latin-1
        return '/' + name.encode('utf8', 'surrogateescape').decode('latin-1')
    raise ValueError(channel)


def bounds(tier):
    return {'layouts': [l[0] for l in layouts(tier)], 'collision_layouts': [c[0] for c in collisions()], 'channels': CHANNELS,
            'service_permutations': 'all (2!, 3!, 4!)', 'near_misses_per_name': 'case flips, 7 prefixes, 7 suffixes, every deletion, Response suffix, doubled, empty, leading space'}


def shards(tier):
    out = []
    for li in range(len(layouts(tier))):
        for ch in CHANNELS:
            out.append({'kind': 'layout', 'li': li, 'channel': ch, 'tier': tier})
    out.append({'kind': 'collisions', 'tier': tier})
    out.append({'kind': 'patterns', 'tier': tier})
    out.append({'kind': 'pattern-histories', 'tier': tier})
    return out


class App(object):
    def __init__(self, services, channel):
        from spyne.server.wsgi import WsgiApplication
        self.b = spec.build(program_of(services))
        proto = {'json-wsgi': 'json', 'http-mounted': 'http', 'http-script-name': 'http'}.get(channel, channel)
        self.app = spec.make_app(self.b, harness.make_proto(proto), harness.make_proto(proto))
        self.channel = channel
        if channel.startswith('http') or channel == 'json-wsgi':
            self.wsgi = WsgiApplication(self.app)
        else:
            self.srv = drv.make_server(self.app)

    def run(self, req):
        b = self.b
        b.rec.reset()
        for k, m in b.methods.items():
            b.rec.script[k] = ('ret', 1)
        if self.channel.startswith('http'):
            env = drv.environ('GET', req, '', b'', content_type=None, content_length=None)
            if self.channel == 'http-mounted':
                env['SCRIPT_NAME'] = '/api/v1'
            elif self.channel == 'http-script-name':
                env['SCRIPT_NAME'] = '/svc' + env['PATH_INFO']
                env['PATH_INFO'] = ''
            o = drv.call_wsgi(self.wsgi, env)
        elif self.channel == 'json-wsgi':
            o = drv.call_wsgi(self.wsgi, drv.environ('POST', '/', '', req, content_type='application/json'))
        else:
            o = drv.call_server(self.srv, req)
        return o, [c[0] for c in b.rec.calls]


def run_shard(shard, only=None):
    res = {'evaluations': 0, 'nontrivial': 0, 'outcomes': {}, 'violations': [], 'samples': [], 'cov': {'programs': 0, 'permutations': 0}, 'notes': {}}
    tier = shard['tier']
    if shard['kind'] == 'collisions':
        from spyne.interface import Interface
        for cid, services in collisions():
            for perm in itertools.permutations(range(len(services))):
                svs = [services[i] for i in perm]
                res['evaluations'] += 1
                key = ['collision', cid, list(perm)]
                if only is not None and only != key:
                    continue
                try:
                    b = spec.build(program_of(svs))
                    app = spec.make_app(b, harness.make_proto('xml'), harness.make_proto('xml'))
                except Exception as e:
                    res['nontrivial'] += 1
                    res['outcomes']['rejected'] = res['outcomes'].get('rejected', 0) + 1
                    continue
                res['violations'].append({'sig': 'C11|collision-accepted|%s' % cid,
                                          'what': 'application with two methods answering to the same name was constructed: %s' % cid,
                                          'case': {'shard': shard, 'only': key}, 'count': 1})
        return res
    if shard['kind'] == 'pattern-histories':
        run_pattern_histories(shard, res, only)
        from vf.props.c01 import compress
        return compress(res)
    if shard['kind'] == 'patterns':
        run_patterns(shard, res, only)
        from vf.props.c01 import compress
        return compress(res)
    lid, services = layouts(tier)[shard['li']]
    channel = shard['channel']
    registered, auxes = {}, {}
    for sv in services:
        for m in sv[1]:
            if len(sv) > 2:
                auxes.setdefault(public_name(m), []).append(m['key'])
            else:
                registered[public_name(m)] = m['key']
    for n in list(auxes):
        if n not in registered:      # an auxiliary method without a primary one: not exercised
            registered[n] = None
    names = [(n, k) for n, k in registered.items() if k is not None]
    registered = dict(registered)
    misses = sorted(set(x for n in registered for x in near_misses(n, registered)))
    targets = {}
    for perm in itertools.permutations(range(len(services))):
        svs = [services[i] for i in perm]
        try:
            app = App(svs, channel)
        except Exception as e:
            res['violations'].append({'sig': 'C11|build|%s|%s|%s' % (lid, channel, type(e).__name__),
                                      'what': 'application cannot be built: %r' % (e,), 'case': {'shard': shard, 'only': ['build', list(perm)]}, 'count': 1})
            continue
        res['cov']['programs'] += 1
        res['cov']['permutations'] += 1
        variants = ['qualified', 'other-ns', 'unqualified'] if channel in ('xml', 'soap11', 'soap12') else ['qualified']
        for variant in variants:
            for name, want in names + [(x, None) for x in misses]:
                lenient = None
                if variant == 'unqualified' and want is not None:
                    # the dispatcher documents that an unqualified name defaults to the target namespace: it may
                    # run the function registered for the name, or nothing - but never another function
                    lenient = want
                if variant != 'qualified':
                    want = None
                req = build_request(channel, name, variant)
                if req is None:
                    continue
                if channel.startswith('http') and name == '':
                    continue
                if channel == 'http-script-name':
                    want, lenient = None, None
                key = [list(perm), variant, name]
                if only is not None and only != key:
                    continue
                o, calls = app.run(req)
                res['evaluations'] += 1
                casedoc = {'shard': shard, 'only': key}

                def V(kind, detail, what):
                    res['violations'].append({'sig': 'C11|%s|%s|%s|%s' % (kind, channel, lid, detail),
                                              'what': '[%s %s perm=%s %s] name %r: %s' % (channel, lid, list(perm), variant, name, what),
                                              'case': casedoc, 'count': 1})
                if o.escaped is not None:
                    V('escape', '%s@%s' % (type(o.escaped).__name__, o.escaped_where), 'exception escaped: %r' % (o.escaped,))
                    continue
                res['nontrivial'] += 1
                if want is not None:
                    if calls[:1] != [want] or sorted(calls[1:]) != sorted(auxes.get(name, [])):
                        V('wrong-function', 'registered:%s' % name, 'expected exactly [%s] then auxiliary %s to run, ran %s' % (
                            want, sorted(auxes.get(name, [])), calls))
                        res['outcomes']['wrong'] = res['outcomes'].get('wrong', 0) + 1
                        continue
                    prev = targets.setdefault((variant, name), sorted(calls))
                    if prev != sorted(calls):
                        V('permutation-dependent', name, 'ran %s, under another service order %s' % (calls, prev))
                    res['outcomes']['dispatched'] = res['outcomes'].get('dispatched', 0) + 1
                else:
                    kind_ = 'near-miss' if variant == 'qualified' else variant
                    if lenient is not None and calls[:1] == [lenient] and sorted(calls[1:]) == sorted(auxes.get(name, [])):
                        res['outcomes']['unqualified-defaults-to-tns'] = res['outcomes'].get('unqualified-defaults-to-tns', 0) + 1
                        continue
                    if calls:
                        V('near-miss-ran', '%s' % kind_, 'unregistered name ran %s' % calls)
                        res['outcomes']['near-miss-ran'] = res['outcomes'].get('near-miss-ran', 0) + 1
                        continue
                    if channel.startswith('http') or channel == 'json-wsgi':
                        st = (o.status or '')[:3]
                        if st != '404':
                            V('not-found-status', st, 'HTTP status %s for an unknown method (body %r)' % (o.status, (o.out or b'')[:120]))
                        res['outcomes']['not-found'] = res['outcomes'].get('not-found', 0) + 1
                        continue
                    code = None if o.fault is None else str(o.fault.faultcode)
                    if code is None:
                        V('near-miss-no-fault', kind_, 'no fault for an unknown method: %r' % ((o.out or b'')[:120],))
                    elif not code.startswith('Client'):
                        V('not-found-not-client', code[:30], 'fault %s for an unknown method' % code)
                    res['outcomes']['not-found'] = res['outcomes'].get('not-found', 0) + 1
                if not res['samples']:
                    res['samples'].append({'layout': lid, 'channel': channel, 'perm': list(perm), 'name': name, 'ran': calls})
    from vf.props.c01 import compress
    return compress(res)


def replay(case):
    r = run_shard(case['shard'], only=case['only'])
    return r['violations']
