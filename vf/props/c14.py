"""C14 - event hooks fire in documented order, exactly once, on success and failure.

Model checking (E3a + E3b).  E3a: tla/Events.tla models the request pipeline with one failure point (or none) and an
exception kind chosen in Init; TLC explores it exhaustively and checks the property as invariants; every terminal
state of the model is a behaviour (the expected event trace is a history variable) and EVERY behaviour is replayed
against the implementation for each protocol family x transport x listener level: the failure is injected at the
modelled stage, listeners on every manager (application, service, method) record what they see, and the
application-level trace must equal the model's trace, the service- and method-level traces its projection.
E3b: breadth-first search over histories of add_listener / del_listener / service subclassing on real EventManager
objects against a reference model (insertion-ordered list without duplicates; subclasses inherit), states
deduplicated on the canonical registration state; after every history an event is fired and the call order compared."""
import collections
import itertools
import json

from vf import tagged, harness, spec, drv, universe
from vf.ref import xsdcodec
from vf.mc import tlc

ID = 'C14'
LEVEL = 'model_checking'
RULE = ('E3a: every terminal behaviour of tla/Events.tla replayed for every (protocol family, transport, raising-listener level) the '
        'family can realise; E3b: every add/del/subclass history up to the depth bound on real EventManager objects. Non-trivial: the '
        'replay produced a recorded trace / the history changed the registration state.')
ASSUMPTIONS = ['protocol- and transport-level events are recorded but only required not to disturb the application-level trace',
               'the "unserialisable return" failure point is realised for the eagerly serialising XML family through WSGI only']
FLOOR = {'quick': 200, 'thorough': 400}
SERIAL = False
TNS = universe.TNS
I = ['p', 'Integer', {}]
EVENTS = ['method_context_created', 'method_call', 'method_return_object', 'method_exception_object', 'method_return_document',
          'method_return_string', 'method_exception_document', 'method_exception_string', 'method_context_closed']
FAMILIES = ['xml', 'soap11', 'soap12', 'json', 'yaml', 'msgpack', 'http']
_MODEL = {}


def model():
    if not _MODEL:
        r = tlc.run('Events')
        beh = []
        for s in r['states']:
            if s.get('pc') == '"done"':
                beh.append({'fp': tlc.parse_value(s['fp']), 'kind': tlc.parse_value(s['kind']), 'trace': tlc.parse_value(s['tr']),
                            'ended': tlc.parse_value(s['ended'])})
        beh.sort(key=lambda b: (b['fp'], b['kind']))
        _MODEL.update(states=r['distinct'], transitions=r['generated'], behaviours=beh, cmd=r['cmd'])
    return _MODEL


def bounds(tier):
    return {'model': 'tla/Events.tla', 'failure_points': 9, 'exception_kinds': 2, 'families': FAMILIES, 'transports': ['ServerBase', 'WSGI'],
            'raising_listener_levels': ['application', 'service', 'method'], 'registration_history_depth': 4 if tier == 'quick' else 5}


def shards(tier):
    m = model()
    out = []
    for bi, b in enumerate(m['behaviours']):
        for fam in FAMILIES:
            out.append({'kind': 'replay', 'bi': bi, 'behaviour': b, 'family': fam, 'tier': tier})
    out.append({'kind': 'bfs', 'depth': 4 if tier == 'quick' else 5, 'tier': tier})
    out.append({'kind': 'inherit', 'tier': tier})
    out.append({'kind': 'bfs-services', 'depth': 4 if tier == 'quick' else 5, 'tier': tier})
    return out


def finish(tier, agg):
    m = model()
    return {'states': m['states'] + agg.cov.get('bfs_states', 0) + agg.cov.get('svc_bfs_states', 0),
            'transitions': m['transitions'] + agg.cov.get('bfs_transitions', 0) + agg.cov.get('svc_bfs_transitions', 0),
            'traces_validated_against_impl': agg.cov.get('replays', 0) + agg.cov.get('bfs_histories', 0),
            'model_behaviours': len(m['behaviours']), 'tlc_states': m['states'], 'tlc_transitions': m['transitions'],
            'checker_cmd': m['cmd'], 'invariants': ['CreatedFirst', 'AtMostOnce', 'FuncAfterCall', 'Done'],
            'trusted_base': ['TLC 1.8.0', 'the replay driver vf/props/c14.py']}


def program():
    m = {'n': 'm', 'args': [['a', I]], 'ret': I, 'evmgr': True}
    return {'tns': TNS, 'classes': [], 'services': [{'n': 'S', 'methods': [m, {'n': 'other', 'args': [], 'ret': I}]}]}


REALISABLE = {
    # failure point -> families that have the stage
    'bytes': ['xml', 'soap11', 'soap12', 'json', 'yaml', 'msgpack'],
    'envelope': ['soap11', 'soap12', 'json', 'yaml', 'msgpack'],
    'dispatch': FAMILIES, 'argument': FAMILIES, 'call_listener': FAMILIES, 'function': FAMILIES, 'return_listener': FAMILIES, 'none': FAMILIES,
    'serialize': ['xml', 'soap11', 'soap12'],
}


def make_request(fam, h, fp):
    """-> bytes or query string realising the failure point"""
    b = h.b
    m = b.methods['m']
    if fam == 'http':
        if fp == 'dispatch':
            return ('/nosuchmethod', 'a=5')
        if fp == 'argument':
            return ('/m', 'a=abc')
        return ('/m', 'a=5')
    if fam in ('xml', 'soap11', 'soap12'):
        valid = xsdcodec.build_request(h.codec, m, [5], fam)
        if fp == 'bytes':
            return valid[:len(valid) // 2]
        if fp == 'envelope':
            return b'<notanenvelope xmlns="urn:x"/>'
        if fp == 'dispatch':
            return valid.replace(b':m>', b':nosuch>').replace(b':m ', b':nosuch ').replace(b':m/>', b':nosuch/>')
        if fp == 'argument':
            return valid.replace(b'>5<', b'>abc<')
        return valid
    doc = h.codec.request_doc(m, [5])
    if fp == 'bytes':
        data = h.codec.dumps(doc)
        if fam == 'yaml':
            return b'm: {a: [1, 2'
        return data[:len(data) - 2] if fam != 'msgpack' else b'\xc1' + data
    if fp == 'envelope':
        return h.codec.dumps({'m': {'a': 5}, 'second': {}})
    if fp == 'dispatch':
        return h.codec.dumps({'nosuchmethod': {'a': 5}})
    if fp == 'argument':
        return h.codec.dumps({'m': {'a': 'abc'}})
    return h.codec.dumps(doc)


class Unserialisable(object):
    def __repr__(self):
        return 'Unserialisable()'


def replay_one(behaviour, fam, transport, level, res, casedoc):
    from spyne.server.wsgi import WsgiApplication
    from spyne.model.fault import Fault
    fp, kind = behaviour['fp'], behaviour['kind']
    prog = program()
    if fam == 'http':
        h = harness.HttpHarness(prog, 'soft')
    elif fam in ('xml', 'soap11', 'soap12'):
        h = harness.XmlHarness(prog, fam, 'soft')
    else:
        h = harness.DictHarness(prog, fam, 'soft')
    b = h.b
    traces = {'application': [], 'service': [], 'method': []}
    mgrs = {'application': h.app.event_manager, 'service': b.services[0].event_manager, 'method': b.method_evmgrs['m']}

    def exc():
        return Fault('Client.Listener', 'raised by a listener') if kind == 'fault' else RuntimeError('listener blew up')
    for lvl, mgr in mgrs.items():
        for ev in EVENTS:
            def rec(ctx, lvl=lvl, ev=ev):
                traces[lvl].append(ev)
            mgr.add_listener(ev, rec)
    if fp == 'call_listener':
        def raiser(ctx):
            raise exc()
        mgrs[level].add_listener('method_call', raiser)
    if fp == 'return_listener':
        def raiser2(ctx):
            raise exc()
        mgrs[level].add_listener('method_return_object', raiser2)

    def func(ctx, a):
        traces['application'].append('FUNC')
        traces['service'].append('FUNC')
        traces['method'].append('FUNC')
        if fp == 'function':
            raise (Fault('Client.User', 'user fault') if kind == 'fault' else KeyError('boom'))
        if fp == 'serialize':
            return Unserialisable()
        return 6
    script = ('call', func)
    req = make_request(fam, h, fp)
    b.rec.reset()
    b.rec.script['m'] = script
    # 'wsgi-unread': the server closes the response iterable without reading it (HEAD request, client gone);
    # 'wsgi-one-chunk': it stops after the first chunk.  The events of the call are the same.
    abort = {'wsgi-unread': 0, 'wsgi-one-chunk': 1}.get(transport)
    w = WsgiApplication(h.app) if (fam != 'http' and transport.startswith('wsgi')) else None

    def once():
        if fam == 'http':
            env = drv.environ('GET', req[0], req[1], b'', content_type=None, content_length=None)
            return drv.call_wsgi(h.wsgi, env, abort_after=abort)
        if transport.startswith('wsgi'):
            env = drv.environ('POST', '/', '', req, content_type='text/xml; charset=utf-8')
            return drv.call_wsgi(w, env, abort_after=abort)
        return drv.call_server(h.srv, req)
    o = once()
    first = {k: list(v) for k, v in traces.items()}
    # the same request once more on the same application, managers and listeners: the events of a call are a function of
    # the call, not of what was delivered (or raised) before
    for v in traces.values():
        del v[:]
    o2 = once()
    second = {k: list(v) for k, v in traces.items()}
    for k in traces:
        traces[k][:] = first[k]
    traces['second-call'] = second if (o2.escaped is None) else {'escaped': repr(o2.escaped)}
    return traces, o


def expected_projection(behaviour, level, raising_level):
    tr = list(behaviour['trace'])
    if level == 'application':
        return [tr], tr
    fp = behaviour['fp']
    if fp in ('bytes', 'envelope', 'dispatch'):
        return [[]], []      # no descriptor yet: only the application hears about it
    proj = [e for e in tr if e not in ('method_context_created', 'method_context_closed')]
    alts = [proj]
    # a manager that is fired after the one holding the raising listener may miss the event at which it raised
    order = ['application', 'method', 'service']
    if fp in ('call_listener', 'return_listener') and order.index(level) > order.index(raising_level):
        ev = 'method_call' if fp == 'call_listener' else 'method_return_object'
        alts.append([e for e in proj if e != ev])
    return alts, proj


def run_shard(shard, only=None):
    res = {'evaluations': 0, 'nontrivial': 0, 'outcomes': {}, 'violations': [], 'samples': [], 'cov': {'replays': 0}, 'notes': {}}
    if shard['kind'] == 'replay':
        beh = shard['behaviour']
        fam = shard['family']
        fp = beh['fp']
        if fam not in REALISABLE[fp]:
            res['notes']['skipped:%s-not-realisable-in-%s' % (fp, fam)] = 1
            return res
        transports = ['wsgi', 'wsgi-unread', 'wsgi-one-chunk'] if (fam == 'http' or fp == 'serialize') else ['server', 'wsgi', 'wsgi-unread', 'wsgi-one-chunk']
        levels = ['application', 'service', 'method'] if fp in ('call_listener', 'return_listener') else ['application']
        for transport in transports:
            for level in levels:
                key = [transport, level]
                if only is not None and only != key:
                    continue
                casedoc = {'shard': shard, 'only': key}
                traces, o = replay_one(beh, fam, transport, level, res, casedoc)
                res['evaluations'] += 1
                res['cov']['replays'] += 1

                def V(kind_, detail, what):
                    res['violations'].append({'sig': 'C14|%s|%s|%s|%s' % (kind_, fp + ('/' + beh['kind'] if fp in ('call_listener', 'function', 'return_listener') else ''), detail, transport),
                                              'what': '[%s %s failure=%s/%s raising listener at %s level] %s' % (fam, transport, fp, beh['kind'], level, what),
                                              'case': casedoc, 'count': 1})
                if o.escaped is not None:
                    V('escape', '%s@%s' % (type(o.escaped).__name__, o.escaped_where), 'exception escaped: %r; application-level trace so far %s' % (o.escaped, traces['application']))
                    continue
                ok = True
                for lvl in ('application', 'service', 'method'):
                    alts, proj = expected_projection(beh, lvl, level)
                    if traces[lvl] not in alts:
                        ok = False
                        first = next((i for i, (x, y) in enumerate(itertools.zip_longest(traces[lvl], alts[0])) if x != y), None)
                        V('trace-differs', '%s-level|first-diff=%s' % (lvl, (alts[0] + ['<end>'])[first] if first is not None and first < len(alts[0]) + 1 else '?'),
                          '%s-level listeners saw %s, the specification automaton prescribes %s' % (lvl, traces[lvl], alts[0]))
                        break
                sec = traces.get('second-call')
                if ok and sec is not None and any(sec.get(l) != traces[l] for l in ('application', 'service', 'method')):
                    ok = False
                    lvl = [l for l in ('application', 'service', 'method') if sec.get(l) != traces[l]]
                    V('second-call-differs', '%s-level' % (lvl[0] if lvl else 'escaped'),
                      'the same request sent a second time to the same application: listeners saw %s, the first time %s' % (
                          sec if 'escaped' in sec else sec.get(lvl[0]), None if 'escaped' in sec else traces[lvl[0]]))
                res['outcomes']['conforms' if ok else 'differs'] = res['outcomes'].get('conforms' if ok else 'differs', 0) + 1
                if ok:
                    res['nontrivial'] += 1
                if not res['samples']:
                    res['samples'].append({'behaviour': beh, 'family': fam, 'transport': transport, 'application_trace': traces['application']})
    elif shard['kind'] == 'bfs':
        bfs_registration(shard['depth'], res, shard, only)
    elif shard['kind'] == 'bfs-services':
        bfs_services(shard['depth'], res, shard, only)
    else:
        inheritance(res, shard)
    from vf.props.c01 import compress
    return compress(res)


# ------------------------------------------------------------------ E3b: registration semantics

def bfs_registration(depth, res, shard, only):
    """states = histories over ops (add|del, event in {e1,e2}, listener in {0..4}), (delall, event), (fire, event); listeners
    3 and 4 are one-shot: they deregister themselves from inside their own invocation.  The real EventManager is rebuilt
    by replay for every history (no copying of live objects); canonical state = registration lists per event.  Reference:
    firing runs every listener registered at that moment once, in registration order - also when one of them removes
    itself while the event is being delivered - and a one-shot listener is gone afterwards."""
    from spyne.evmgr import EventManager
    NL = 5
    ONESHOT = (3, 4)
    ops = [(op, ev, l) for op in ('add', 'del') for ev in ('e1', 'e2') for l in range(NL)] + [('delall', ev, None) for ev in ('e1', 'e2')] + \
          [('fire', ev, None) for ev in ('e1', 'e2')]
    calls = []

    def build(hist):
        em = EventManager(None)
        cur = {'ev': None}

        def mk(i):
            if i in ONESHOT:
                def f(ctx):
                    calls.append(i)
                    em.del_listener(cur['ev'], f)
            else:
                def f(ctx):
                    calls.append(i)
            return f
        listeners = [mk(i) for i in range(NL)]

        def fire(ev):
            cur['ev'] = ev
            em.fire_event(ev, None)
        ref = {'e1': [], 'e2': [], 'fired': set()}
        for op, ev, l in hist:
            if op == 'add':
                em.add_listener(ev, listeners[l])
                if l not in ref[ev]:
                    ref[ev].append(l)
            elif op == 'del':
                if l in ref[ev]:
                    em.del_listener(ev, listeners[l])
                    ref[ev].remove(l)
                else:
                    return None, None, None     # not enabled: deleting a listener that is not registered
            elif op == 'fire':
                if not ref[ev]:
                    return None, None, None     # (firing an event nobody listens to changes nothing)
                fire(ev)
                ref[ev] = [x for x in ref[ev] if x not in ONESHOT]
                ref['fired'].add(ev)
            else:
                if ref[ev] or ev in em.handlers:
                    em.del_listener(ev)
                    ref[ev] = []
                else:
                    return None, None, None
        return em, ref, fire

    def canon(ref):
        # "this event has been delivered before" is part of the state: an implementation may cache what it delivered
        return (tuple(ref['e1']), tuple(ref['e2']), tuple(sorted(ref.get('fired', ()))))
    seen = {canon({'e1': [], 'e2': []})}
    frontier = collections.deque([[]])
    nstates, ntrans, nhist = 1, 0, 0
    while frontier:
        hist = frontier.popleft()
        if len(hist) >= depth:
            continue
        for op in ops:
            h2 = hist + [op]
            if only is not None and [list(x) for x in h2] != [list(x) for x in only][:len(h2)]:
                continue
            try:
                em, ref, fire = build(h2)
            except Exception as e:
                res['violations'].append({'sig': 'C14|registration-raises|%s|%s' % (op[0], type(e).__name__),
                                          'what': 'history %s raised %r' % (h2, e), 'case': {'shard': shard, 'only': h2}, 'count': 1})
                continue
            if em is None:
                continue
            ntrans += 1
            nhist += 1
            res['evaluations'] += 1
            for ev in ('e1', 'e2'):
                # observation on a throw-away rebuild: firing changes the state when one-shot listeners are registered
                em2, ref2, fire2 = build(h2)
                del calls[:]
                try:
                    fire2(ev)
                except Exception as e:
                    res['violations'].append({'sig': 'C14|registration-raises|fire|%s' % type(e).__name__,
                                              'what': 'after %s firing %s raised %r' % (h2, ev, e), 'case': {'shard': shard, 'only': h2}, 'count': 1})
                    continue
                if calls != ref2[ev]:
                    kind = 'duplicate' if len(calls) != len(set(calls)) else ('skipped' if len(calls) < len(ref2[ev]) else 'order')
                    res['violations'].append({'sig': 'C14|registration-order|%s' % kind,
                                              'what': 'after %s firing %s called listeners %s, reference model says %s (3 and 4 remove themselves while running)' % (
                                                  h2, ev, calls, ref2[ev]),
                                              'case': {'shard': shard, 'only': h2}, 'count': 1})
            k = canon(ref)
            if k not in seen:
                seen.add(k)
                nstates += 1
                res['nontrivial'] += 1
                frontier.append(h2)
            elif only is not None:
                frontier.append(h2)
    res['cov']['bfs_states'] = nstates
    res['cov']['bfs_transitions'] = ntrans
    res['cov']['bfs_histories'] = nhist
    res['outcomes']['bfs-histories'] = nhist


def bfs_services(depth, res, shard, only):
    """BFS over histories of operations on REAL service classes: ('sub', parents) creates a subclass of one or two
    existing services; ('listen', service, event, listener) registers a service-level listener.  Reference model: a
    subclass starts with its bases' listeners (in base order, de-duplicated) and registration touches that service
    only.  After every history every service's method is called through an application and the listeners that fired
    are compared with the model.  Listeners registered on an ancestor AFTER the subclass was created are unspecified
    (filtered out unless the model has them anyway)."""
    import spyne.service as S
    from spyne.decorator import rpc
    from spyne.model.primitive import Integer
    from spyne.application import Application
    from spyne.protocol.json import JsonDocument
    EVS = ('method_call', 'method_return_object')
    MAXS = 4

    def enabled(model):
        n = len(model)
        ops = []
        if n < MAXS:
            for a in range(n):
                ops.append(('sub', (a,)))
            for a in range(n):
                for b_ in range(n):
                    if a != b_ and not (a in model[b_]['anc'] or b_ in model[a]['anc']):
                        ops.append(('sub', (a, b_)))
        for sv in range(n):
            for ev in EVS:
                for l in (0, 1):
                    ops.append(('listen', sv, ev, l))
        return ops

    def apply_model(model, op):
        model = [dict(anc=set(m['anc']), h={e: list(m['h'][e]) for e in EVS}, late={e: set(m['late'][e]) for e in EVS}) for m in model]
        if op[0] == 'sub':
            anc = set()
            h = {e: [] for e in EVS}
            for a in op[1]:
                anc |= {a} | model[a]['anc']
                for e in EVS:
                    for l in model[a]['h'][e]:
                        if l not in h[e]:
                            h[e].append(l)
            model.append(dict(anc=anc, h=h, late={e: set() for e in EVS}))
        else:
            _, sv, ev, l = op
            if l not in model[sv]['h'][ev]:
                model[sv]['h'][ev].append(l)
            model[sv]['late'][ev].discard(l)
            for i, m in enumerate(model):
                if sv in m['anc'] and l not in m['h'][ev]:
                    m['late'][ev].add(l)
        return model

    def build(hist):
        calls = []
        listeners = {(e, l): (lambda ctx, e=e, l=l: calls.append((e, l))) for e in EVS for l in (0, 1)}

        def mkfn(i):
            def fn(ctx):
                calls.append(('FUNC', i))
                return 1
            fn.__name__ = 'm%d' % i
            return fn
        base = getattr(S, 'Service', S.ServiceBase)
        svcs = [S.ServiceBaseMeta('V0', (base,), {'m0': rpc(_returns=Integer)(mkfn(0))})]
        for op in hist:
            if op[0] == 'sub':
                i = len(svcs)
                svcs.append(S.ServiceBaseMeta('V%d' % i, tuple(svcs[a] for a in op[1]), {'m%d' % i: rpc(_returns=Integer)(mkfn(i))}))
            else:
                svcs[op[1]].event_manager.add_listener(op[2], listeners[(op[2], op[3])])
        return svcs, calls

    def canon(model):
        return tuple((tuple(sorted(m['anc'])), tuple(tuple(m['h'][e]) for e in EVS), tuple(tuple(sorted(m['late'][e])) for e in EVS)) for m in model)
    m0 = [dict(anc=set(), h={e: [] for e in EVS}, late={e: set() for e in EVS})]
    seen = {canon(m0)}
    frontier = collections.deque([([], m0)])
    nstates, ntrans, ncalls = 1, 0, 0
    while frontier:
        hist, model = frontier.popleft()
        if len(hist) >= depth:
            continue
        for op in enabled(model):
            h2 = hist + [list(op) if op[0] == 'listen' else ['sub', list(op[1])]]
            if only is not None and only != h2:
                if only[:len(h2)] != h2:
                    continue
            m2 = apply_model(model, op)
            k = canon(m2)
            fresh = k not in seen
            if not fresh and only is None:
                ntrans += 1
                continue
            if only is None or only == h2:
                ntrans += 1
                try:
                    svcs, calls = build([tuple(x) if x[0] == 'listen' else ('sub', tuple(x[1])) for x in h2])
                    # every service is published by two applications (built one after the other over the same class) and
                    # called through the first, the second and the first again
                    plan = []
                    for i, sv in enumerate(svcs):
                        a1 = drv.make_server(Application([sv], tns=TNS, name='A%d' % i, in_protocol=JsonDocument(), out_protocol=JsonDocument()))
                        plan.append((i, a1, 'first application'))
                    for i, sv in enumerate(svcs):
                        a2 = drv.make_server(Application([sv], tns=TNS, name='B%d' % i, in_protocol=JsonDocument(), out_protocol=JsonDocument()))
                        plan.append((i, a2, 'second application over the same class'))
                        plan.append((i, plan[i][1], 'first application, after a second one was built'))
                    for i, srv, which in plan:
                        del calls[:]
                        o = drv.call_server(srv, ('{"m%d": {}}' % i).encode('ascii'))
                        ncalls += 1
                        res['evaluations'] += 1
                        got = [c for c in calls if not (c[0] in EVS and c[1] in m2[i]['late'][c[0]])]
                        want = [('method_call', l) for l in m2[i]['h']['method_call']] + [('FUNC', i)] + \
                               [('method_return_object', l) for l in m2[i]['h']['method_return_object']]
                        if got != want or o.escaped is not None:
                            kind = 'leak' if len(got) > len(want) else ('lost' if len(got) < len(want) else 'order')
                            res['violations'].append({'sig': 'C14|service-listeners|%s' % kind,
                                                      'what': 'after %s a call of service V%d (%s) ran %s, the reference model says %s (escaped: %r)' % (
                                                          h2, i, which, got, want, o.escaped),
                                                      'case': {'shard': shard, 'only': h2}, 'count': 1})
                        else:
                            res['nontrivial'] += 1
                except Exception as e:
                    res['violations'].append({'sig': 'C14|service-listeners-raises|%s' % type(e).__name__,
                                              'what': 'history %s raised %r' % (h2, e), 'case': {'shard': shard, 'only': h2}, 'count': 1})
            if fresh:
                seen.add(k)
                nstates += 1
                frontier.append((h2, m2))
            elif only is not None:
                frontier.append((h2, m2))
    res['cov']['svc_bfs_states'] = nstates
    res['cov']['svc_bfs_transitions'] = ntrans
    res['cov']['svc_bfs_calls'] = ncalls
    res['outcomes']['svc-bfs'] = nstates


def inheritance(res, shard):
    """service-level listeners are inherited by subclasses (and fire for the subclass's methods), in registration order"""
    prog = {'tns': TNS, 'classes': [], 'services': [{'n': 'Base', 'methods': [{'n': 'bm', 'args': [], 'ret': I}]},
                                                      {'n': 'Sub', 'base': 'Base', 'methods': [{'n': 'sm', 'args': [], 'ret': I}]}]}
    for when in ('before-subclassing',):
        # listeners registered on the base before the subclass is created
        import spyne.service as S
        from spyne.decorator import rpc
        from spyne.model.primitive import Integer
        calls = []
        Base = S.ServiceBaseMeta('Base', (getattr(S, 'Service', S.ServiceBase),), {})
        Base.event_manager.add_listener('method_call', lambda ctx: calls.append('base-1'))
        Base.event_manager.add_listener('method_call', lambda ctx: calls.append('base-2'))

        def sm(ctx):
            calls.append('FUNC')
            return 1
        Sub = S.ServiceBaseMeta('Sub', (Base,), {'sm': rpc(_returns=Integer)(sm)})
        Sub.event_manager.add_listener('method_call', lambda ctx: calls.append('sub-1'))
        from spyne.application import Application
        from spyne.protocol.json import JsonDocument
        app = Application([Sub], tns=TNS, in_protocol=JsonDocument(), out_protocol=JsonDocument())
        srv = drv.make_server(app)
        o = drv.call_server(srv, b'{"sm": {}}')
        res['evaluations'] += 1
        res['cov']['replays'] = res['cov'].get('replays', 0) + 1
        want = ['base-1', 'base-2', 'sub-1', 'FUNC']
        if calls != want or o.escaped is not None:
            res['violations'].append({'sig': 'C14|service-listener-inheritance', 'what': 'subclass method call: listeners/func ran as %s, expected %s (escaped: %r)' % (calls, want, o.escaped),
                                      'case': {'shard': shard, 'only': when}, 'count': 1})
        else:
            res['nontrivial'] += 1
        # a listener added to the base afterwards must not retroactively appear (documented: handlers are copied)
    res['outcomes']['inheritance'] = 1


def replay(case):
    r = run_shard(case['shard'], only=case.get('only') if case['shard']['kind'] == 'replay' else None)
    return r['violations']
