"""C04 - user code only ever receives values of the declared types.

Bounded-exhaustive enumeration (E1): for valid requests of a set of programs, EVERY single type-directed mutation -
(XML) each element retagged xsi:type with every class known to the interface plus xs:string/xs:int/xs:anyType,
prefixes bound in the document; (dict) each scalar replaced by a map/list/string/number/bool/null, each map by a
list and a scalar, each list by a map and a scalar, each wrapper key renamed to every other class name and to an
unknown name; (HttpRpc) an index on every non-array key and a sub-key on every primitive key.  Oracle: a type walk
of the arguments captured inside the user function against the declared type tree; when the function is not entered
the answer must be a Client-family fault."""
import copy
import datetime as _dt
import decimal
import json
import uuid

from lxml import etree

from vf import tagged, harness, spec, drv, universe
from vf.ref import xsdcodec, dictcodec, httpcodec, validity
from vf.tagged import Obj

ID = 'C04'
LEVEL = 'exploration'
RULE = ('every single type-directed mutation of every valid request of the program set x protocol x validator; non-trivial when '
        'the mutated request differs from the valid one and was processed (function entered or fault returned); distinct by '
        '(program, configuration, mutation)')
ASSUMPTIONS = ['int is accepted where Double/Decimal is declared (JSON cannot distinguish 5 from 5.0)',
               'a registered subclass is a class of the program deriving from the declared class in the same namespace']
FLOOR = {'quick': 1500, 'thorough': 15000}
TNS = universe.TNS
I = ['p', 'Integer', {}]
U = ['p', 'Unicode', {}]


def programs(tier):
    import datetime
    out = []
    classes = [
        {'n': 'A', 'fields': [['x', I], ['s', U]]},
        {'n': 'B', 'base': 'A', 'fields': [['y', I]]},
        {'n': 'C', 'fields': [['z', I]]},
        {'n': 'BigC', 'fields': [['x', U], ['s', I], ['y', ['p', 'Date', {}]]]},
        # siblings that declare a member of the same name with different types
        {'n': 'S1', 'base': 'A', 'fields': [['v', I]]},
        {'n': 'S2', 'base': 'A', 'fields': [['v', U]]},
        {'n': 'D', 'fields': [['a', ['c', 'A', {}]], ['l', ['a', ['c', 'A', {}], {}]], ['d', ['p', 'Date', {}]], ['dec', ['p', 'Decimal', {}]],
                              ['b', ['p', 'Boolean', {}]], ['f', ['p', 'Double', {}]], ['il', ['p', 'Integer', {'max_occurs': 'unbounded'}]],
                              ['c', ['c', 'C', {}]], ['by', ['p', 'ByteArray', {}]], ['e', ['e', 'Color', {}]], ['uu', ['p', 'Uuid', {}]]]},
    ]
    m = {'n': 'm', 'args': [['a', ['c', 'D', {}]], ['n', I], ['s', U], ['l', ['a', I, {}]], ['r', ['p', 'Int', {'ge': 0, 'le': 10}]],
                            ['s1', ['c', 'S1', {}]], ['s2', ['c', 'S2', {}]]], 'ret': I}
    m2 = {'n': 'other', 'args': [['q', ['c', 'BigC', {}]]], 'ret': I}
    prog = {'tns': TNS, 'enums': universe.ENUMS, 'classes': classes, 'services': [{'n': 'S', 'methods': [m, m2]}]}
    val = [Obj('D', a=Obj('A', x=1, s='t'), l=[Obj('A', x=2, s='u'), Obj('B', x=3, s='v', y=4)], d=datetime.date(2020, 1, 2),
               dec=decimal.Decimal('1.5'), b=True, f=2.5, il=[7, 8], c=Obj('C', z=9), by=b'abc', e='green',
               uu=uuid.UUID('12345678-1234-5678-1234-567812345678')), 5, 'str', [1, 2], 3, Obj('S1', x=1, s='a', v=42), Obj('S2', x=2, s='b', v='text')]
    val2 = [Obj('D', a=Obj('B', x=1, s='t', y=2), l=[Obj('A', x=2, s='u')], d=None, dec=decimal.Decimal('2'), b=False, f=1.0, il=[7],
                c=None, by=None, e=None, uu=None), 0, '', [3], 0, Obj('S1', x=None, s=None, v=0), None]
    out.append(('rich', prog, 'm', [val] if tier == 'quick' else [val, val2]))
    # header program (SOAP only)
    hp = {'tns': TNS, 'enums': universe.ENUMS, 'classes': [{'n': 'H', 'fields': [['h', I], ['t', U]]}, {'n': 'C', 'fields': [['z', U]]}],
          'services': [{'n': 'S', 'methods': [{'n': 'm', 'args': [['n', I]], 'ret': I, 'in_header': ['H']}]}]}
    out.append(('header', hp, 'm', [[5]]))
    return out


XS = xsdcodec.XS
XSI = xsdcodec.XSI


def native_ok(b, t, v, path, bad):
    """type walk: append (path, description) to bad for every node that is not of the declared type"""
    if v is None:
        return
    t0 = t
    while t[0] in ('xa', 'xd', 'm'):
        t = t[1]
    k = t[0]
    if k == 'a':
        if not isinstance(v, (list, tuple)):
            bad.append((path, 'expected a list for an array, got %s' % type(v).__name__))
            return
        for i, x in enumerate(v):
            native_ok(b, t[1], x, path + '[%d]' % i, bad)
        return
    if k in ('p', 'c', 'e') and validity.is_multi(t):
        if t[1] == 'ByteArray' and isinstance(v, (list, tuple)) and v and all(isinstance(x, (bytes, bytearray)) for x in v):
            pass
        if not isinstance(v, (list, tuple)):
            bad.append((path, 'expected a list for a repeated member, got %s' % type(v).__name__))
            return
        st = [t[0], t[1], {kk: vv for kk, vv in (t[2] or {}).items() if kk != 'max_occurs'}]
        for i, x in enumerate(v):
            native_ok(b, st, x, path + '[%d]' % i, bad)
        return
    if k == 'c':
        n = b.spec_name_of(v) if not isinstance(v, (str, bytes, int, float, list, tuple, dict, bool)) else None
        if n is None:
            bad.append((path, 'expected an instance of %s, got %s %r' % (t[1], type(v).__name__, repr(v)[:60])))
            return
        if not b.is_subclass(n, t[1]):
            bad.append((path, 'expected %s or a subclass, got an instance of the unrelated class %s' % (t[1], n)))
            return
        for fn, ft in b.flat_fields(n):
            native_ok(b, ft, getattr(v, fn, None), path + '.' + fn, bad)
        return
    if k == 'e':
        names = b.program['enums'][t[1]]
        if not any(getattr(b.enums[t[1]], nm) is v for nm in names):
            bad.append((path, 'expected a member of enum %s, got %s %r' % (t[1], type(v).__name__, repr(v)[:60])))
        return
    name = t[1]
    from vf.ref.xsdlex import XS_OF, INT_RANGES
    if XS_OF.get(name) in INT_RANGES:
        ok = isinstance(v, int) and not isinstance(v, bool)
    elif name in ('Double', 'Float'):
        ok = isinstance(v, (int, float)) and not isinstance(v, bool)
    elif name == 'Decimal':
        ok = isinstance(v, (decimal.Decimal, int)) and not isinstance(v, bool)
    elif name == 'Boolean':
        ok = isinstance(v, bool)
    elif name in ('Unicode', 'String', 'AnyUri'):
        ok = isinstance(v, str)
    elif name == 'Uuid':
        ok = isinstance(v, uuid.UUID)
    elif name == 'DateTime':
        ok = isinstance(v, _dt.datetime)
    elif name == 'Date':
        ok = isinstance(v, _dt.date) and not isinstance(v, _dt.datetime)
    elif name == 'Time':
        ok = isinstance(v, _dt.time)
    elif name == 'Duration':
        ok = isinstance(v, _dt.timedelta)
    elif name == 'ByteArray':
        ok = isinstance(v, (bytes, bytearray)) or (isinstance(v, (list, tuple)) and all(isinstance(x, (bytes, bytearray, memoryview)) for x in v))
    else:
        ok = True
    if not ok:
        bad.append((path, 'expected native %s, got %s %r' % (name, type(v).__name__, repr(v)[:60])))


def check_outcome(h, b, mname, o, ctxdoc, res, sigbase, what_req, http_status=None):
    """shared oracle.  returns outcome label"""
    m = b.methods[mname]
    calls = [c for c in b.rec.calls]

    def V(kind, detail, what):
        res['violations'].append({'sig': 'C04|%s|%s%s' % (kind, sigbase, ('|' + detail) if detail else ''),
                                  'what': what + '; request=%s' % (what_req,), 'case': ctxdoc, 'count': 1})
    if o.escaped is not None:
        V('escape', '%s@%s' % (type(o.escaped).__name__, o.escaped_where), 'exception escaped: %r' % (o.escaped,))
        return 'escape'
    bad = []
    for name, args, hdr in calls:
        mm = b.methods.get(name)
        if mm is None:
            continue
        for (an, at), x in zip(mm.get('args', []), args):
            native_ok(b, at, x, an, bad)
        if mm.get('in_header') and hdr is not None:
            hs = hdr if isinstance(hdr, (list, tuple)) else [hdr]
            for hn, hx in zip(mm['in_header'], hs):
                native_ok(b, ['c', hn, {}], hx, 'header:' + hn, bad)
    if bad:
        V('foreign-value-reached-user-code', bad[0][1].split(',')[0][:60], 'user function received %s: %s' % (bad[0][0], bad[0][1]))
        return 'foreign-value'
    if calls:
        return 'entered-ok'
    if http_status is not None:
        code = ((o.out or b'').decode('utf8', 'replace').split('\n', 1)[0]) if not str(http_status).startswith('2') else None
        if code is None:
            V('no-call-no-fault', '', 'status %s but the function was not entered' % http_status)
            return 'no-call-no-fault'
    else:
        code = None if o.fault is None else str(o.fault.faultcode)
        if code is None:
            V('no-call-no-fault', '', 'no fault but the function was not entered')
            return 'no-call-no-fault'
    if not code.startswith('Client'):
        V('non-client-fault', code[:40], 'request answered with %s fault' % code)
        return 'non-client-fault'
    return 'client-fault'


# ------------------------------------------------------------------ XML mutations

def xml_mutations(h, req):
    """yield (label, bytes): every element retagged with every known class key + builtins"""
    doc = etree.fromstring(req)
    keys = list(h.app.interface.classes.keys())
    targets = []
    for key in keys:
        ns, name = key[1:].split('}') if key.startswith('{') else (None, key)
        if ns:
            targets.append((ns, name))
    for name in ('string', 'int', 'anyType', 'integer', 'date'):
        if (XS, name) not in targets:
            targets.append((XS, name))
    nss = sorted(set(ns for ns, _ in targets if ns))
    nsmap = dict(doc.nsmap)
    pref = {}
    for i, ns in enumerate(nss):
        found = [p for p, u in nsmap.items() if u == ns and p]
        if found:
            pref[ns] = found[0]
        else:
            pref[ns] = 'tt%d' % i
            nsmap[pref[ns]] = ns
    if 'xsi' not in nsmap:
        nsmap['xsi'] = XSI
    root = etree.Element(doc.tag, nsmap=nsmap)
    root.text = doc.text
    for k, v in doc.attrib.items():
        root.set(k, v)
    for ch in doc:
        root.append(ch)
    elems = [e for e in root.iter() if isinstance(e.tag, str)]
    env = xsdcodec.envelope_ns(h.proto)
    for idx, e in enumerate(elems):
        if env and e.tag in (xsdcodec.q(env, 'Envelope'), xsdcodec.q(env, 'Body'), xsdcodec.q(env, 'Header')):
            continue
        lname = etree.QName(e).localname
        for ns, name in targets:
            old = e.get(xsdcodec.q(XSI, 'type'))
            e.set(xsdcodec.q(XSI, 'type'), '%s:%s' % (pref[ns], name))
            yield '%s#%d>%s' % (lname, idx, name), ('xsi:type', lname, name), etree.tostring(root)
            if old is None:
                del e.attrib[xsdcodec.q(XSI, 'type')]
            else:
                e.set(xsdcodec.q(XSI, 'type'), old)


# ------------------------------------------------------------------ dict mutations

def kind_of(x):
    if x is None:
        return 'null'
    if isinstance(x, bool):
        return 'bool'
    if isinstance(x, (int, float)):
        return 'number'
    if isinstance(x, (str, bytes)):
        return 'text'
    if isinstance(x, dict):
        return 'map'
    return 'list'


REPLACEMENTS = [('map', {'k': 1}), ('empty-map', {}), ('list', [1, 'x']), ('empty-list', []), ('text', 'zzz'), ('number', 12345),
                ('float', 1.5), ('bool', True), ('null', None), ('nested-list', [[1]]), ('map-of-map', {'k': {'j': 1}}),
                # numbers that compare equal to booleans, booleans for numbers, digits as text, integral floats, wide integers
                ('zero', 0), ('one', 1), ('float-zero', 0.0), ('float-one', 1.0), ('minus-one', -1), ('false', False),
                ('text-digit', '1'), ('text-true', 'true'), ('wide-int', 2 ** 70), ('float-integral', 7.0)]


def dict_mutations(doc, class_names):
    """yield (label, sigparts, mutated doc): every node replaced by every other kind; every key that is a class
    name renamed to every other class name and to an unknown name"""
    paths = []

    def walk(node, path):
        paths.append(path)
        if isinstance(node, dict):
            for k in list(node.keys()):
                walk(node[k], path + [k])
        elif isinstance(node, list):
            for i in range(len(node)):
                walk(node[i], path + [i])
    walk(doc, [])

    def get(d, path):
        for p in path:
            d = d[p]
        return d

    def set_(d, path, v):
        for p in path[:-1]:
            d = d[p]
        d[path[-1]] = v
    for path in paths:
        if not path:
            continue
        cur = get(doc, path)
        ck = kind_of(cur)
        for label, rep in REPLACEMENTS:
            if kind_of(rep) == ck and label in ('map', 'list', 'text', 'number', 'bool', 'null'):
                continue
            d2 = copy.deepcopy(doc)
            set_(d2, path, copy.deepcopy(rep))
            yield 'replace %s:%s>%s' % ('/'.join(str(p) for p in path), ck, label), ('replace', ck, label), d2
        # wrapper key renames
        last = path[-1]
        lname = last.decode('utf8') if isinstance(last, bytes) else last
        if isinstance(lname, str) and lname in class_names:
            for other in list(class_names) + ['NoSuchClass']:
                if other == lname:
                    continue
                d2 = copy.deepcopy(doc)
                parent = get(d2, path[:-1])
                val = parent.pop(last)
                parent[other.encode('utf8') if isinstance(last, bytes) else other] = val
                yield 'rename %s>%s' % ('/'.join(str(p) for p in path), other), ('rename-wrapper', lname, other), d2


def http_mutations(pairs):
    for i, (k, v) in enumerate(pairs):
        p2 = list(pairs)
        p2[i] = (k + '[0]', v)
        yield 'index-on %s' % k, ('index', 'x'), p2
        p2 = list(pairs)
        p2[i] = (k + '[3]', v)
        yield 'index3-on %s' % k, ('index3', 'x'), p2
        p2 = list(pairs)
        p2[i] = (k + '.sub', v)
        yield 'subkey-on %s' % k, ('subkey', 'x'), p2
        p2 = list(pairs)
        p2[i] = (k.split('.')[0], v)
        yield 'truncate-key %s' % k, ('truncate', 'x'), p2
        p2 = list(pairs) + [(k, v)]
        yield 'duplicate %s' % k, ('duplicate', 'x'), p2


def bounds(tier):
    return {'programs': [p[0] for p in programs(tier)], 'xml': ['xml', 'soap11', 'soap12'], 'xml_validators': ['None', 'soft', 'lxml'],
            'dict': ['json', 'yaml', 'msgpack'], 'dict_settings': 'ignore_wrappers x polymorphic x validator {soft, None}', 'http': ['validator soft/None'],
            'mutations': 'all single mutations'}


def shards(tier):
    out = []
    for pi, (pname, prog, mname, vals) in enumerate(programs(tier)):
        for vi in range(len(vals)):
            for proto in ('xml', 'soap11', 'soap12'):
                for val in (None, 'soft', 'lxml'):
                    if pname == 'header' and proto == 'xml':
                        continue
                    out.append({'fam': 'xml', 'pi': pi, 'vi': vi, 'proto': proto, 'validator': val, 'tier': tier})
            if pname == 'header':
                continue
            for wire in ('json', 'yaml', 'msgpack'):
                for iw in (True, False):
                    for poly in (False, True):
                        for val in ('soft',):     # the property quantifies over validator in {soft, lxml} here
                            out.append({'fam': 'dict', 'pi': pi, 'vi': vi, 'wire': wire, 'iw': iw, 'poly': poly, 'validator': val, 'tier': tier})
            for val in ('soft',):
                out.append({'fam': 'http', 'pi': pi, 'vi': vi, 'validator': val, 'tier': tier})
    return out


def run_shard(shard, only_label=None):
    res = {'evaluations': 0, 'nontrivial': 0, 'outcomes': {}, 'violations': [], 'samples': [], 'cov': {'programs': 1}, 'notes': {}}
    tier = shard['tier']
    pname, prog, mname, vals = programs(tier)[shard['pi']]
    args = vals[shard['vi']]
    fam = shard['fam']

    def account(oc, label):
        res['evaluations'] += 1
        res['outcomes'][oc] = res['outcomes'].get(oc, 0) + 1
        if oc in ('entered-ok', 'client-fault'):
            res['nontrivial'] += 1
    if fam == 'xml':
        h = harness.XmlHarness(prog, shard['proto'], shard['validator'])
        m = h.b.methods[mname]
        hdr = {'H': Obj('H', h=1, t='x')} if m.get('in_header') else None
        req = xsdcodec.build_request(h.codec, m, args, shard['proto'], header=hdr)
        o = h.call_raw(mname, req, 1)
        assert o.fault is None and o.escaped is None and len(h.b.rec.calls) == 1, ('baseline request must succeed', o.fault, o.escaped)
        for label, sigp, data in xml_mutations(h, req):
            if only_label is not None and label != only_label:
                continue
            o = h.call_raw(mname, data, 1)
            ctxdoc = {'shard': shard, 'label': label}
            oc = check_outcome(h, h.b, mname, o, ctxdoc, res, '%s,validator=%s|%s|%s>%s' % (shard['proto'], shard['validator'], pname, sigp[1], sigp[2]), data[:600])
            account(oc, label)
            if not res['samples']:
                res['samples'].append({'mutation': label, 'request': data.decode('utf8', 'replace')[:500]})
    elif fam == 'dict':
        h = harness.DictHarness(prog, shard['wire'], shard['validator'], ignore_wrappers=shard['iw'], polymorphic=shard['poly'])
        m = h.b.methods[mname]
        doc = h.codec.request_doc(m, args)
        o = h.call_raw(mname, h.codec.dumps(doc), 1)
        assert o.fault is None and o.escaped is None and len(h.b.rec.calls) == 1, ('baseline request must succeed', o.fault, o.escaped)
        cnames = set(h.b.cdefs)
        for label, sigp, d2 in dict_mutations(doc, cnames):
            if only_label is not None and label != only_label:
                continue
            try:
                data = h.codec.dumps(d2)
            except Exception:
                continue
            o = h.call_raw(mname, data, 1)
            ctxdoc = {'shard': shard, 'label': label}
            cfg = '%s,iw=%s,poly=%s,validator=%s' % (shard['wire'], 'T' if shard['iw'] else 'F', 'T' if shard['poly'] else 'F', shard['validator'])
            oc = check_outcome(h, h.b, mname, o, ctxdoc, res, '%s|%s|%s|%s>%s' % (cfg, pname, sigp[0], sigp[1], sigp[2]), repr(data[:400]))
            account(oc, label)
            if not res['samples']:
                res['samples'].append({'mutation': label, 'request': repr(data[:300])})
    else:
        h = harness.HttpHarness(prog, shard['validator'])
        m = h.b.methods[mname]
        pairs = []
        for (an, at), v in zip(m['args'], args):
            try:
                pairs += httpcodec.flatten(h.b, an, at, v)
            except httpcodec.NotDenotable:
                # ByteArray without encoding etc.: flatten what can be flattened
                if isinstance(v, Obj):
                    v2 = Obj(v.cls, **{k: x for k, x in v.f.items() if k not in ('by',)})
                    pairs += httpcodec.flatten(h.b, an, at, v2)
        for label, sigp, p2 in http_mutations(pairs):
            if only_label is not None and label != only_label:
                continue
            q = httpcodec.query_string(p2)
            o = h.get(mname, q, 1)
            ctxdoc = {'shard': shard, 'label': label}
            oc = check_outcome(h, h.b, mname, o, ctxdoc, res, 'http,validator=%s|%s|%s' % (shard['validator'], pname, sigp[0]), q[:400],
                               http_status=(o.status or '')[:3])
            account(oc, label)
            if not res['samples']:
                res['samples'].append({'mutation': label, 'query': q[:300]})
    from vf.props.c01 import compress
    return compress(res)


def replay(case):
    r = run_shard(case['shard'], only_label=case['label'])
    return r['violations']
