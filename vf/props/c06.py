"""C06 - the published XML Schema is truthful about the wire.

Bounded-exhaustive enumeration (E1): (a) for every program of the level A / level B universe and for schema-specific
programs (several namespaces with cross-namespace fields and bases, attributes with use, XmlData, choice groups,
restrictions on every primitive) the published schema documents - serialised to bytes - are compiled by lxml,
independently of Spyne's own validation schema; (b) every request Spyne's own client-side serialiser emits and every
response its server emits for conformant values is validated against that compiled schema; (c) for the boundary /
near-boundary / ill-formed documents of the C05 facet lattice the server is run once with validator='lxml' and once
with validator='soft' and the two verdicts must agree for every constraint both implement."""
import itertools
import json

from lxml import etree

from vf import tagged, harness, spec, drv, universe, loopback
from vf.ref import xsdcodec, validity
from vf.ref.special import Raw, Absent, Nil, Repeat
from vf.tagged import Obj
from vf.props import c01, c05

ID = 'C06'
LEVEL = 'exploration'
RULE = ('(a) every program: published schema compiles; (b) every (program, conformant value, protocol): Spyne-emitted request and response '
        'validate; (c) every (facet, value, position, protocol): lxml verdict == soft verdict.  Non-trivial when a document was validated or '
        'a verdict pair compared; distinct by (program, protocol, value)')
ASSUMPTIONS = ['lxml/libxml2 is the XML Schema processor', 'total/fraction digits and other facets soft validation does not implement are excluded from (c)',
               'patterns are restricted to the dialect-common subset ([a-z]+)']
FLOOR = {'quick': 3000, 'thorough': 30000}
TNS = universe.TNS
I = ['p', 'Integer', {}]
U = ['p', 'Unicode', {}]
PROTOS = ['xml', 'soap11', 'soap12']


def schema_programs():
    out = []
    A = {'n': 'A', 'ns': 'urn:vf:a', 'fields': [['x', I], ['when', ['p', 'DateTime', {}]]]}
    B = {'n': 'B', 'ns': 'urn:vf:a', 'base': 'A', 'fields': [['y', U]]}
    C = {'n': 'C', 'ns': 'urn:vf:c', 'fields': [['a', ['c', 'A', {}]], ['bs', ['a', ['c', 'B', {}], {}]], ['n', ['p', 'Int', {'ge': 0, 'le': 9}]]]}
    # types of foreign namespaces that point back at a type of the target namespace (member, base class)
    T0 = {'n': 'T0', 'fields': [['t', I]]}
    Eb = {'n': 'Eb', 'ns': 'urn:vf:e', 'fields': [['d0', ['c', 'T0', {}]], ['u', U]]}
    Fb = {'n': 'Fb', 'ns': 'urn:vf:f', 'base': 'T0', 'fields': [['w', U]]}
    Dd = {'n': 'D', 'fields': [['c', ['c', 'C', {}]], ['k', ['xa', ['p', 'Unicode', {'min_occurs': 1}]]], ['o', ['xa', I]], ['e', ['e', 'Color', {}]],
                              ['eb', ['c', 'Eb', {}]], ['fb', ['c', 'Fb', {}]]]}
    m = {'n': 'm', 'args': [['d', ['c', 'D', {}]], ['z', I]], 'ret': ['c', 'D', {}]}
    import datetime
    v = Obj('D', c=Obj('C', a=Obj('A', x=1, when=datetime.datetime(2020, 1, 2, 3, 4, 5, tzinfo=tagged.tz(0))),
                       bs=[Obj('B', x=2, when=None, y='q')], n=5), k='key', o=3, e='red', eb=Obj('Eb', d0=Obj('T0', t=1), u='you'), fb=Obj('Fb', t=2, w='dubya'))
    out.append(('three-namespaces', {'tns': TNS, 'enums': universe.ENUMS, 'classes': [A, B, C, T0, Eb, Fb, Dd], 'services': [{'n': 'S', 'methods': [m]}]}, [[v, 7]]))
    # named simple types in a namespace of their own; members that use them as they are and members that restrict them
    # further (the restriction is published in the namespace of the class, its base in the namespace of the named type)
    simples = {'Code': {'p': 'Unicode', 'attrs': {'max_len': 8}, 'type_name': 'Code', 'ns': 'urn:vf:types'},
               'Small': {'p': 'Integer', 'attrs': {'ge': 0, 'le': 99}, 'type_name': 'Small', 'ns': 'urn:vf:types'},
               'Local': {'p': 'Unicode', 'attrs': {'min_len': 1}, 'type_name': 'Local'},
               'Digit': {'p': 'Integer', 'attrs': {'ge': 0, 'le': 9}, 'type_name': 'Digit'}}
    # named types (an enum, a restricted integer) that are used as the second / third XML attribute of a class and nowhere else
    digit = ['p', 'Integer', {'ge': 0, 'le': 9, '_from': 'Digit'}]
    code2 = ['p', 'Unicode', {'max_len': 8, 'min_len': 2, '_from': 'Code', '_own': {'min_len': 2}}]
    code = ['p', 'Unicode', {'max_len': 8, '_from': 'Code'}]
    small50 = ['p', 'Integer', {'ge': 0, 'le': 50, '_from': 'Small', '_own': {'le': 50}}]
    local = ['p', 'Unicode', {'min_len': 1, '_from': 'Local'}]
    Item = {'n': 'Item', 'ns': 'urn:vf:a', 'fields': [['code', code2], ['n', I]]}          # the only reference of urn:vf:a to urn:vf:types
    Item2 = {'n': 'Item2', 'fields': [['c', code], ['s', small50], ['l', local], ['ca', ['xa', code2]], ['a1', ['xa', I]], ['a2', ['xa', ['e', 'Shade', {}]]], ['a3', ['xa', digit]],
                                      ['a4', ['xa', ['p', 'Integer', {'ge': 0, 'le': 50, '_from': 'Small', '_own': {'le': 50}}]]]]}
    Item3 = {'n': 'Item3', 'ns': 'urn:vf:b', 'fields': [['s', ['p', 'Integer', {'ge': 0, 'le': 99, '_from': 'Small'}]], ['cs', ['a', code2, {}]]]}
    mn = {'n': 'm', 'args': [['i', ['c', 'Item', {}]], ['j', ['c', 'Item2', {}]], ['k', ['c', 'Item3', {}]]], 'ret': ['c', 'Item', {}]}
    out.append(('named-simple-types', {'tns': TNS, 'simples': simples, 'enums': {'Shade': ['light', 'dark']}, 'classes': [Item, Item2, Item3], 'services': [{'n': 'S', 'methods': [mn]}]},
                [[Obj('Item', code='abc', n=1), Obj('Item2', c='x', s=50, l='y', ca='zz', a1=1, a2='dark', a3=7, a4=5), Obj('Item3', s=99, cs=['ab', 'cdefgh'])]]))
    # enumerated numbers of different types whose values are equal as Python numbers (1 == 1.0 == Decimal('1.0'))
    import decimal as _dec
    En = {'n': 'En', 'fields': [['d', ['p', 'Double', {'values': [1.0, 2.0]}]], ['i', ['p', 'Integer', {'values': [1, 2]}]],
                                 ['c', ['p', 'Decimal', {'values': [tagged.enc(_dec.Decimal('1.0')), tagged.enc(_dec.Decimal('2.0'))]}]],
                                 ['u', ['p', 'Unicode', {'values': ['1', '2']}]]]}
    men = {'n': 'm', 'args': [['e', ['c', 'En', {}]]], 'ret': ['c', 'En', {}]}
    out.append(('equal-valued-enumerations', {'tns': TNS, 'classes': [En], 'services': [{'n': 'S', 'methods': [men]}]},
                [[Obj('En', d=1.0, i=2, c=_dec.Decimal('1.0'), u='2')]]))
    # one class used as the bare argument of a method (met first) and as the header of another one
    Auth = {'n': 'Auth', 'fields': [['user', U], ['n', I]]}
    login = {'n': 'm', 'args': [['a', ['c', 'Auth', {}]]], 'ret': U, 'kw': {'_body_style': 'bare'}}
    mh = {'n': 'mh', 'args': [['n', I]], 'ret': U, 'in_header': ['Auth']}
    out.append(('class-as-bare-argument-and-header', {'tns': TNS, 'classes': [Auth], 'services': [{'n': 'S', 'methods': [login, mh]}]},
                [{'args': [Obj('Auth', user='u', n=1)], 'ret': 'x'}]))
    # two classes of different namespaces that have a member of the same name and the same class: a member element belongs
    # to the namespace of the class that contains it
    Pt = {'n': 'Point', 'ns': 'urn:vf:p', 'fields': [['x', I], ['y', I]]}
    Road = {'n': 'Road', 'ns': 'urn:vf:r', 'fields': [['origin', ['c', 'Point', {}]], ['len', I]]}
    Flight = {'n': 'Flight', 'ns': 'urn:vf:f', 'fields': [['origin', ['c', 'Point', {}]], ['alt', I]]}
    Trip = {'n': 'Trip', 'fields': [['road', ['c', 'Road', {}]], ['flight', ['c', 'Flight', {}]]]}
    Trip2 = {'n': 'Trip2', 'fields': [['flight', ['c', 'Flight', {}]], ['road', ['c', 'Road', {}]], ['origin', ['c', 'Point', {}]]]}
    mt = {'n': 'm', 'args': [['t', ['c', 'Trip', {}]], ['u', ['c', 'Trip2', {}]]], 'ret': ['c', 'Trip', {}]}
    rd, fl = Obj('Road', origin=Obj('Point', x=1, y=2), len=3), Obj('Flight', origin=Obj('Point', x=4, y=5), alt=6)
    out.append(('same-member-in-two-namespaces', {'tns': TNS, 'classes': [Pt, Road, Flight, Trip, Trip2], 'services': [{'n': 'S', 'methods': [mt]}]},
                [[Obj('Trip', road=rd, flight=fl), Obj('Trip2', flight=fl, road=rd, origin=Obj('Point', x=7, y=8))]]))
    # xs:choice groups: two groups whose names are not in alphabetical order, one member of each set
    Login = {'n': 'Login', 'fields': [['realm', U], ['host', ['p', 'Unicode', {'xml_choice_group': 'target'}]], ['address', ['p', 'Unicode', {'xml_choice_group': 'target'}]],
                                      ['token', ['p', 'Unicode', {'xml_choice_group': 'auth'}]], ['pin', ['p', 'Integer', {'xml_choice_group': 'auth'}]], ['tail', I]]}
    ml = {'n': 'm', 'args': [['l', ['c', 'Login', {}]]], 'ret': ['c', 'Login', {}]}
    out.append(('choice-groups', {'tns': TNS, 'classes': [Login], 'services': [{'n': 'S', 'methods': [ml]}]},
                [[Obj('Login', realm='r', host='h', address=None, token='t', pin=None, tail=1)], [Obj('Login', realm=None, host=None, address='a', token=None, pin=5, tail=None)]]))
    # anonymous types customised in several steps next to siblings whose names are those of the generated ancestor types
    for order in ('chain-first', 'sibling-first'):
        chain = ['p', 'Unicode', {'pattern': '[a-z]+', 'max_len': 10, '_steps': [{'pattern': '[a-z]+'}, {'max_len': 10}]}]
        chain3 = ['p', 'Integer', {'ge': 0, 'le': 50, '_steps': [{'ge': 0}, {'le': 99}, {'le': 50}]}]
        fl = [['node', chain], ['nodeParent', ['p', 'Unicode', {'max_len': 4}]], ['num', chain3], ['numParent', ['p', 'Integer', {'ge': -5}]],
              ['numParentParent', ['p', 'Unicode', {'min_len': 1}]]]
        if order == 'sibling-first':
            fl = [fl[1], fl[0], fl[4], fl[3], fl[2]]
        Row = {'n': 'Row', 'fields': fl}
        mr = {'n': 'm', 'args': [['r', ['c', 'Row', {}]]], 'ret': ['c', 'Row', {}]}
        out.append(('anonymous-chains-' + order, {'tns': TNS, 'classes': [Row], 'services': [{'n': 'S', 'methods': [mr]}]},
                    [[Obj('Row', node='abc', nodeParent='AB12', num=7, numParent=-3, numParentParent='x y')]]))
    # Array(T) and Iterable(T) of the same member type share one published array type: in both declaration orders
    for order in ('array-first', 'iterable-first'):
        Xc = {'n': 'Xc', 'fields': [['v', I]]}
        ta, ti = ['a', ['c', 'Xc', {}], {}], ['it', ['c', 'Xc', {}], {}]
        args = [['p', ta], ['q', ti]] if order == 'array-first' else [['p', ti], ['q', ta]]
        mo = {'n': 'm', 'args': args, 'ret': ta if order == 'array-first' else ti}
        out.append(('array-and-iterable-' + order, {'tns': TNS, 'classes': [Xc], 'services': [{'n': 'S', 'methods': [mo]}]},
                    [{'args': [[Obj('Xc', v=1)], [Obj('Xc', v=2), Obj('Xc', v=3)]], 'ret': [Obj('Xc', v=4)]}]))
    # bare / out_bare methods: every combination of nillable / non-nillable argument and result; a nillable result is None
    for style in ('bare', 'out_bare'):
        for an, rn in itertools.product((True, False), repeat=2):
            at = ['p', 'Integer', {} if an else {'nillable': False}]
            rt = ['p', 'Unicode', {} if rn else {'nillable': False}]
            mb = {'n': 'm', 'args': [['a', at]], 'ret': rt, 'kw': {'_body_style': style}}
            out.append(('%s-arg-%s-ret-%s' % (style, 'nillable' if an else 'mandatory', 'nillable' if rn else 'mandatory'),
                        {'tns': TNS, 'classes': [], 'services': [{'n': 'S', 'methods': [mb]}]},
                        [{'args': [3], 'ret': None if rn else 'text'}, {'args': [3], 'ret': 'text'}]))
    X = {'n': 'X', 'fields': [['t', ['xd', U]], ['lang', ['xa', U]]]}
    m2 = {'n': 'm', 'args': [['x', ['c', 'X', {}]], ['z', I]], 'ret': ['c', 'X', {}]}
    out.append(('xmldata', {'tns': TNS, 'classes': [X], 'services': [{'n': 'S', 'methods': [m2]}]}, [[Obj('X', t='text', lang='en'), 1]]))
    return out


def bounds(tier):
    return {'atoms': len(universe.atoms()), 'positions': universe.POSITIONS, 'levelB_max_fields': 2 if tier == 'quick' else 3,
            'schema_programs': [p[0] for p in schema_programs()], 'facets': len(c05.facets(tier)), 'protocols': PROTOS}


def shards(tier):
    out = []
    for aid, at in universe.atoms(tier):
        for pos in universe.POSITIONS:
            if universe.program_for(at, pos) is None:
                continue
            out.append({'kind': 'A', 'atom': aid, 'pos': pos, 'tier': tier})
    n = 2 if tier == 'quick' else 3
    shp = list(universe.shapes(n))
    per = 10
    for i in range(0, len(shp), per):
        out.append({'kind': 'B', 'n': n, 'lo': i, 'hi': min(len(shp), i + per), 'tier': tier})
    for i in range(len(schema_programs())):
        out.append({'kind': 'S', 'i': i, 'tier': tier})
    for i, (fid, t, vals) in enumerate(c05.facets(tier)):
        if len(vals) > 3000:
            for part in range(8):
                out.append({'kind': 'V', 'i': i, 'fid': fid, 'tier': tier, 'part': part, 'parts': 8})
        else:
            out.append({'kind': 'V', 'i': i, 'fid': fid, 'tier': tier})
    for j, (ofid, ot, omn, omx) in enumerate(c05.occurrence_types()):
        if isinstance(ot[2].get('default'), list):
            continue      # (a list-valued default cannot be written into an XML Schema: dict documents and HttpRpc only, see C05)
        out.append({'kind': 'O', 'j': j, 'tier': tier})
    return out


def compile_schema(h):
    try:
        return h.lxml_schema(), None
    except etree.XMLSchemaParseError as e:
        return None, str(e)


def import_problems(docs):
    """every QName reference of a schema document into a foreign namespace needs an xs:import of that namespace in the
    same document"""
    XS = xsdcodec.XS
    out = []
    for d in docs:
        root = etree.fromstring(d)
        tns = root.get('targetNamespace')
        imported = set(i.get('namespace') for i in root.findall('{%s}import' % XS))
        for el in root.iter():
            if not isinstance(el.tag, str):
                continue
            for an in ('type', 'base', 'ref', 'itemType'):
                v = el.get(an)
                if not v or ':' not in v:
                    continue
                ns = el.nsmap.get(v.split(':', 1)[0])
                if ns is None or ns == XS or ns == tns:
                    continue
                if ns not in imported:
                    out.append('schema document of namespace %r refers to %s="%s" (namespace %r) without importing that namespace' % (tns, an, v, ns))
    return sorted(set(out))


def payload_of(data, proto):
    doc = etree.fromstring(data)
    env = xsdcodec.envelope_ns(proto)
    if env:
        body = doc.find(xsdcodec.q(env, 'Body'))
        return body[0] if body is not None and len(body) else None
    return doc


def emitted_documents(program, arg_cases, res, site, casebase, tier):
    """(a)+(b) for one program"""
    m = program['services'][0]['methods'][0]
    style = xsdcodec.body_style(m)
    for proto in PROTOS:
        h = harness.XmlHarness(program, proto, None)
        sch, err = compile_schema(h)
        res['evaluations'] += 1
        if sch is None:
            import re
            kind = re.sub(r"'[^']*'|\{[^}]*\}|[0-9]+", '', err.split(':', 1)[-1])[:70].strip()
            where = 'xmldata' if site.endswith('|xmldata') else site
            res['violations'].append({'sig': 'C06|schema-does-not-compile|%s|%s' % (where, kind),
                                      'what': '[%s] published schema is rejected by lxml: %s' % (proto, err[:300]),
                                      'case': dict(casebase, proto=proto, only='compile'), 'count': 1})
            continue
        res['cov']['schemas_compiled'] = res['cov'].get('schemas_compiled', 0) + 1
        for prob in import_problems(h.docs):
            # XSD src-resolve: a schema document may only refer to components of a foreign namespace it imports
            # (libxml2 resolves them anyway once some other document of the set has loaded that namespace)
            res['violations'].append({'sig': 'C06|schema-import-missing|%s' % (site.split('|')[0] if '|' in site else site),
                                      'what': '[%s] %s' % (proto, prob), 'case': dict(casebase, proto=proto, only='compile'), 'count': 1})
        client = None
        if style == 'wrapped':
            capp = spec.make_app(h.b, harness.make_proto(proto), harness.make_proto(proto))

            def send(req, h=h):
                o = drv.call_server(h.srv, req)
                if o.escaped is not None:
                    raise o.escaped
                return o.out
            client = loopback.make_client(capp, send)
        for label, args, ret, ih, oh in arg_cases:
            b = h.b
            b.rec.reset()
            b.rec.script['m'] = ('ret', h.natives(m, ret))
            req = resp = None
            if client is not None:
                nargs = [spec.to_native(b, a[1], v) for a, v in zip(m.get('args', []), args)]
                if ih:
                    hs = [spec.to_native(b, ['c', x, {}], ih.get(x)) for x in m.get('in_header', [])]
                    client.set_options(out_header=hs[0] if len(hs) == 1 else hs)
                    if proto == 'xml':
                        continue
                if oh:
                    hs = [spec.to_native(b, ['c', x, {}], oh.get(x)) for x in m.get('out_header', [])]
                    b.rec.script[('out_header', 'm')] = hs[0] if len(hs) == 1 else hs
                try:
                    getattr(client.service, 'm')(*nargs)
                except Exception as e:
                    res['notes']['client-call-failed(C01)'] = res['notes'].get('client-call-failed(C01)', 0) + 1
                req, resp = client.last_request, client.last_response
            else:
                try:
                    rq = xsdcodec.build_request(h.codec, m, args, proto, header=ih)
                except (xsdcodec.NotDenotable, xsdcodec.SchemaError):
                    continue
                o = h.call_raw('m', rq, ret, oh)
                resp = o.out if o.escaped is None and o.fault is None else None
            for which, data in (('request', req), ('response', resp)):
                if data is None:
                    continue
                res['evaluations'] += 1
                try:
                    pl = payload_of(data, proto)
                except etree.XMLSyntaxError:
                    continue
                if pl is None or etree.QName(pl).localname == 'Fault':
                    continue
                if sch.validate(pl):
                    res['nontrivial'] += 1
                    res['outcomes']['valid-' + which] = res['outcomes'].get('valid-' + which, 0) + 1
                else:
                    err = sch.error_log.last_error
                    lab = label.split('|')[-1] if label.startswith('one|') else label.split('|')[0]
                    sigsite = 'decimal-exponent-notation' if (b'E+' in data or b'E-' in data) and 'Decimal' in site else '%s|%s' % (site, lab)
                    res['violations'].append({'sig': 'C06|emitted-%s-invalid|%s' % (which, sigsite),
                                              'what': '[%s] %s Spyne emitted for conformant values is rejected by the published schema: %s; document=%r' % (
                                                  proto, which, str(err)[:300], data[:500]),
                                              'case': dict(casebase, proto=proto, only=label), 'count': 1})


COMPARABLE = ('num', 'len', 'match', 'nomatch', 'prefix-match', 'suffix-match', 'member', 'nonmember', 'case-variant', 'prefix', 'date', 'dt', 'time',
              'dbl', 'dec', 'value', 'absent', 'nil', 'count', 'true', 'false', 'ok', 'raw', 'empty', 'match-too-long', 'nomatch-short', 'member2',
              'member-space', 'newline-tail')


def verdict_pairs(t, fid, pos, cases, res, casebase):
    """(c) lxml vs soft for one (type, position)"""
    upos = {'array': 'array', 'arg': 'arg', 'field': 'field', 'xmlattr': 'xmlattr', 'seq': 'field', 'seq-arg': 'arg', 'inherited': 'inherited',
            'seq-inherited': 'inherited'}[pos]
    program = universe.program_for(t, upos)
    if program is None:
        return
    for proto in PROTOS:
        try:
            hl = harness.XmlHarness(program, proto, 'lxml')
        except etree.XMLSchemaParseError as e:
            import re
            kind = re.sub(r"'[^']*'|\{[^}]*\}|[0-9]+", '', str(e).split(':', 1)[-1])[:70].strip()
            res['violations'].append({'sig': 'C06|schema-does-not-compile|%s|%s|%s' % (fid, pos, kind),
                                      'what': '[%s] Spyne cannot build its own validation schema for %s in position %s: %s' % (proto, fid, pos, str(e)[:300]),
                                      'case': dict(casebase, proto=proto, pos=pos, only='compile'), 'count': 1})
            continue
        hs = harness.XmlHarness(program, proto, 'soft')
        hl.codec.lenient = hs.codec.lenient = True
        for label, v, slot, exp in cases:
            args, ret, ih, oh = universe.embed(upos, t, slot)
            try:
                ol, _, req = c05.send(hl, proto if proto != 'soap12' else 'soap11', 'm', args, t) if False else _send(hl, proto, args)
                os_, _, _ = _send(hs, proto, args)
            except (xsdcodec.NotDenotable, xsdcodec.SchemaError):
                continue
            res['evaluations'] += 1
            if ol in ('accept', 'reject') and os_ in ('accept', 'reject'):
                res['nontrivial'] += 1
                res['outcomes']['pair:%s/%s' % (ol, os_)] = res['outcomes'].get('pair:%s/%s' % (ol, os_), 0) + 1
                if ol != os_:
                    short = label.split(':')[0] if len(cases) > 40 else label
                    res['violations'].append({'sig': 'C06|verdicts-differ|%s|%s|lxml=%s,soft=%s' % (fid, short, ol, os_),
                                              'what': '[%s %s] %s value %r: schema validation says %s, soft validation says %s (reference: %s); request=%r' % (
                                                  proto, pos, fid, v, ol, os_, 'accept' if exp else 'reject', req[:400]),
                                              'case': dict(casebase, proto=proto, pos=pos, only=label), 'count': 1})
            else:
                res['outcomes']['other:%s/%s' % (ol, os_)] = res['outcomes'].get('other:%s/%s' % (ol, os_), 0) + 1


def _send(h, proto, args):
    m = h.b.methods['m']
    req = xsdcodec.build_request(h.codec, m, args, proto)
    o = h.call_raw('m', req, None)
    calls = h.captured('m')
    if o.escaped is not None:
        return 'escape', None, req
    if o.fault is not None:
        code = str(o.fault.faultcode)
        return ('reject' if code.startswith('Client') and not calls else 'other'), code, req
    return ('accept' if len(calls) == 1 else 'other'), None, req


def run_shard(shard, only=None):
    res = {'evaluations': 0, 'nontrivial': 0, 'outcomes': {}, 'violations': [], 'samples': [], 'cov': {'programs': 0}, 'notes': {}}
    tier = shard['tier']
    k = shard['kind']
    if k == 'A':
        at = c01.atom_by_id(shard['atom'])
        program = universe.program_for(at, shard['pos'])
        res['cov']['programs'] += 1
        cases = []
        for label, v in universe.slot_values(shard['pos'], at, tier, 8 if tier == 'quick' else None):
            args, ret, ih, oh = universe.embed(shard['pos'], at, v)
            cases.append((label, args, ret, ih, oh))
        emitted_documents(program, cases, res, '%s|%s' % (shard['atom'], shard['pos']), {'shard': shard}, tier)
        res['samples'].append({'atom': shard['atom'], 'pos': shard['pos']})
    elif k == 'B':
        shp = list(universe.shapes(shard['n']))[shard['lo']:shard['hi']]
        for shape in shp:
            program, root = universe.shape_program(shape, 'wrapped')
            res['cov']['programs'] += 1
            vals = universe.shape_assignments(program, root, 40 if tier == 'quick' else 200)
            cases = [('v%d' % i, [v, 7], v, None, None) for i, v in enumerate(vals)]
            emitted_documents(program, cases, res, 'B', {'shard': shard, 'shape': shape}, tier)
    elif k == 'S':
        name, program, argsl = schema_programs()[shard['i']]
        res['cov']['programs'] += 1
        cases = [('v%d' % i, a['args'], a['ret'], None, None) if isinstance(a, dict) else ('v%d' % i, a, a[0], None, None) for i, a in enumerate(argsl)]
        emitted_documents(program, cases, res, 'S|' + name, {'shard': shard}, tier)
    elif k == 'V':
        fid, t, vals = c05.facets(tier)[shard['i']]
        if 'part' in shard:
            vals = vals[shard['part']::shard['parts']]
        for pos in ('arg', 'field', 'array', 'xmlattr', 'inherited'):
            if pos == 'array' and t[0] == 'm':
                continue
            cases = []
            for label, v in vals:
                if pos == 'xmlattr' and v is Nil:
                    continue
                if isinstance(v, Raw) and v.text == '' and pos != 'xmlattr':
                    pass
                if pos == 'array':
                    if v is Absent:
                        continue
                    slot = [v] if v is not Nil else [None]
                    exp = c05.expected_for(t, v, pos) if v is not Nil else validity.nillable(t)
                else:
                    slot = v
                    exp = c05.expected_for(t, v, pos)
                cases.append((label, v, slot, exp))
            verdict_pairs(t, fid, pos, cases, res, {'shard': shard})
        res['samples'].append({'facet': fid})
    else:
        fid, t, mn, mx = c05.occurrence_types()[shard['j']]
        top = 5 if mx == 'unbounded' else mx + 2
        for pos in ('seq-arg', 'seq', 'seq-inherited'):
            cases = []
            for n in range(0, top + 1):
                vs = list(range(1, n + 1))
                if mx == 1:
                    slot = Absent if n == 0 else (vs[0] if n == 1 else Repeat(vs))
                else:
                    slot = vs if n else Absent
                cases.append(('count:%d' % n, vs, slot, n >= mn and (mx == 'unbounded' or n <= mx)))
            verdict_pairs(t, fid, pos, cases, res, {'shard': shard})
    return c01.compress(res)


def replay(case):
    r = run_shard(case['shard'])
    return r['violations']
