"""C15 - deriving a model never changes another model; field order is deterministic.

Model checking (E3b): breadth-first search over histories of derivation / evolution operations applied to a pool of
real Spyne models.  A state is the operation history that produced the pool (live classes do not copy, so each state is
rebuilt by replay on fresh classes); every transition calls the real API.  After every transition a snapshot of every
pooled model is taken (attributes, ordered fields, verdicts of validate_string / validate_native on a probe set, the
rendered schema fragment on a throw-away replay).  States are deduplicated on a canonical form = snapshots + the alias
partition of the mutable containers reachable from the pool.  Invariants: frame (every model that is not the result of
the operation keeps its snapshot, except the documented effect of append_field / insert_field), post (the new model
carries exactly the requested attributes on top of the operand's), order (flat field order = declaration order,
parents first).  The whole search is repeated in fresh processes under several hash seeds and the canonical state
sets must coincide."""
import collections
import decimal
import hashlib
import json
import os
import subprocess
import sys

ID = 'C15'
LEVEL = 'model_checking'
RULE = ('every history of derivation operations up to the depth bound on a pool of real models; transitions call the real API; '
        'non-trivial states = canonical pool states first reached; traces validated = histories replayed on the implementation '
        '(every one of them)')
ASSUMPTIONS = ['snapshots observe public Attributes, ordered type info, validation verdicts on a fixed probe set and the rendered schema',
               'stock primitives are shared across histories inside one worker process: a mutation of a stock class is reported by the first history that observes it']
FLOOR = {'quick': 60, 'thorough': 500}
_INFO = {}


# ------------------------------------------------------------------ pool and operations

CX_ONLY = ['child_attrs(x)', 'child_attrs(n1)', 'child_attrs(n0)', 'child_attrs_all', 'child_attrs_all+n1', 'child_attrs_noexc', 'subclass', 'append_field', 'insert_field',
           'customize(type_name)']
POOL_SIZE = {'full': 8, 'cx': 2, 'cx4': 2, 'prim': 4, 'mix': 3}
MIX_OPS = ['mix-in(first)', 'mix-in(both)', 'subclass', 'customize(min_occurs=1)', 'Array(T)', 'append_field']
_CUR = {'mixins': ()}
CX_OPS = ['customize(min_occurs=1)', 'customize(sub_name)', 'child_attrs(x)', 'child_attrs(n1)', 'child_attrs(n0)', 'child_attrs_all', 'child_attrs_all+n1',
          'child_attrs_noexc', 'subclass', 'append_field', 'insert_field']


_SUBCOUNT = [0]


def _next_sub():
    _SUBCOUNT[0] += 1
    return _SUBCOUNT[0]


def fresh_pool(cfg='full'):
    """[(label, model)] seed pool on fresh classes.  cfg 'cx': complex models only (deeper histories of the
    customize / child_attrs / append_field / insert_field interplay)"""
    from spyne.model.primitive import Unicode, Integer, Decimal
    from spyne.model.binary import ByteArray
    from spyne.model.complex import ComplexModel, ComplexModelMeta, Array
    _SUBCOUNT[0] = 0
    A = ComplexModelMeta('A', (ComplexModel,), {'__namespace__': 'urn:vf:c15', '_type_info': [('x', Integer), ('s', Unicode)]})
    B = ComplexModelMeta('B', (A,), {'__namespace__': 'urn:vf:c15', '_type_info': [('y', Integer)]})
    if cfg in ('cx', 'cx4'):
        return [('A', A), ('B', B)]
    if cfg == 'mix':
        # two mixin classes and a plain class: classes are also composed from mixins
        M1 = ComplexModelMeta('M1', (ComplexModel,), {'__namespace__': 'urn:vf:c15', '__mixin__': True, '_type_info': [('m1', Integer)]})
        M2 = ComplexModelMeta('M2', (ComplexModel,), {'__namespace__': 'urn:vf:c15', '__mixin__': True, '_type_info': [('m2', Unicode)]})
        _CUR['mixins'] = (M1, M2)
        return [('M1', M1), ('M2', M2), ('A', A)]
    if cfg == 'prim':
        return [('Unicode', Unicode), ('Integer', Integer), ('Decimal', Decimal), ('ByteArray', ByteArray)]
    return [('Unicode', Unicode), ('Integer', Integer), ('A', A), ('B', B), ('Array(A)', Array(A)), ('Array(Integer)', Array(Integer)),
            ('Decimal', Decimal), ('ByteArray', ByteArray)]


def is_complex(m):
    from spyne.model.complex import ComplexModelBase, Array
    return issubclass(m, ComplexModelBase) and not issubclass(m, Array)


def is_array(m):
    from spyne.model.complex import Array
    return issubclass(m, Array)


def is_prim(m, name):
    import spyne.model.primitive as P
    from spyne.model.binary import ByteArray
    cls = ByteArray if name == 'ByteArray' else getattr(P, name)
    return issubclass(m, cls)


SHARED_ATTRS = {'min_occurs': 1}    # one dict object reused by two customisations (operation 'shared-dict')


def operations(tier, cfg='full'):
    """[(op id, applicable(model) -> bool, apply(model) -> new model, requested attrs or None)]"""
    if cfg == 'cx':
        return [o for o in operations('thorough') if o['id'] in CX_OPS]
    if cfg == 'cx4':
        # the depth-4 search of the thorough tier: the nine operations it completed with before the set grew (11^4 transitions
        # per seed model did not finish in half an hour)
        return [o for o in operations('thorough') if o['id'] in CX_OPS and o['id'] not in ('child_attrs_all+n1', 'child_attrs_noexc')]
    if cfg == 'prim':
        return [o for o in operations('thorough') if o['id'] not in CX_ONLY and not o['id'].startswith('mix-in')]
    if cfg == 'mix':
        return [o for o in operations('thorough') if o['id'] in MIX_OPS]
    from spyne.model.complex import Array, Iterable, Mandatory, ComplexModelMeta, ComplexModel
    from spyne.model.primitive import Integer, Unicode
    ops = []

    def op(name, ok, fn, req=None, kind='derive'):
        ops.append({'id': name, 'ok': ok, 'fn': fn, 'req': req, 'kind': kind})
    op('Unicode(max_len=5)', lambda m: is_prim(m, 'Unicode'), lambda m: m(max_len=5), {'max_len': 5})
    op('Integer(ge=3)', lambda m: is_prim(m, 'Integer'), lambda m: m(ge=3), {'ge': 3})
    # enumerations, also of an already enumerated type (the second derivation replaces the value set)
    op('Unicode(values=a,zz)', lambda m: is_prim(m, 'Unicode'), lambda m: m(values=['a', 'zz']), {'values': ['a', 'zz']})
    op('Unicode(values=zz,abcdef)', lambda m: is_prim(m, 'Unicode'), lambda m: m(values=['zz', 'abcdef']), {'values': ['zz', 'abcdef']})
    op('Integer(le=2)', lambda m: is_prim(m, 'Integer'), lambda m: m(le=2), {'le': 2})
    op('Decimal(6,2)', lambda m: is_prim(m, 'Decimal') and not is_prim(m, 'Integer') and not is_prim(m, 'Double'), lambda m: m(6, 2), {'total_digits': 6, 'fraction_digits': 2})
    op('ByteArray(hex)', lambda m: is_prim(m, 'ByteArray'), lambda m: m(encoding='hex'), None)
    op('customize(min_occurs=1)', lambda m: True, lambda m: m.customize(min_occurs=1), {'min_occurs': 1})
    op('customize(nillable=False)', lambda m: True, lambda m: m.customize(nillable=False), {'nillable': False})
    op('customize(sub_name)', lambda m: True, lambda m: m.customize(sub_name='zz'), {'sub_name': 'zz'})
    op('customize(type_name)', lambda m: is_complex(m), lambda m: m.customize(type_name='TN'), None)
    op('customize(default)', lambda m: is_prim(m, 'Unicode') or is_prim(m, 'Integer'), lambda m: m.customize(default=(7 if is_prim(m, 'Integer') else 'd')), None)
    # persistence-related keywords are folded into the (mutable) sqla_column_args record of the new type
    op('customize(pk)', lambda m: not is_complex(m) and not is_array(m), lambda m: m.customize(pk=True), None)
    op('customize(autoincrement,server_default)', lambda m: is_prim(m, 'Integer'), lambda m: m.customize(autoincrement=True, server_default='0'), None)
    op('child_attrs(x)', lambda m: is_complex(m) and 'x' in m.get_flat_type_info(m), lambda m: m.customize(child_attrs={'x': dict(min_occurs=1)}), None)
    # delayed child_attrs: constraints for fields that do not exist yet (append_field / insert_field add them later)
    op('child_attrs(n1)', lambda m: is_complex(m) and 'n1' not in m.get_flat_type_info(m), lambda m: m.customize(child_attrs={'n1': dict(min_occurs=1)}), None)
    op('child_attrs(n0)', lambda m: is_complex(m) and 'n0' not in m.get_flat_type_info(m), lambda m: m.customize(child_attrs={'n0': dict(max_len=7)}), None)
    op('child_attrs_all', lambda m: is_complex(m), lambda m: m.customize(child_attrs_all=dict(nillable=False)), None)
    # (a second "all children" record with another content: two levels of customisation must not share one record)
    op('child_attrs_noexc', lambda m: is_complex(m), lambda m: m.customize(child_attrs_all=dict(exc=True)), None)
    # both kinds of delayed constraints asked for in one customisation
    op('child_attrs_all+n1', lambda m: is_complex(m) and 'n1' not in m.get_flat_type_info(m),
       lambda m: m.customize(child_attrs_all=dict(nillable=False), child_attrs={'n1': dict(min_occurs=1)}), None)
    op('Array(T)', lambda m: True, lambda m: Array(m), None)
    op('Array(T,wrapped=False)', lambda m: True, lambda m: Array(m, wrapped=False), None)
    op('Mandatory(T)', lambda m: True, lambda m: Mandatory(m), None)
    op('subclass', lambda m: is_complex(m) and getattr(m, '__orig__', None) is None,   # (documented: no inheriting from a customized class)
       lambda m: ComplexModelMeta('Sub%d%s' % (_next_sub(), m.__name__), (m,), {'__namespace__': 'urn:vf:c15', '_type_info': [('sub_f', Integer)]}), None)
    # a new class composed from the mixin it is applied to alone / together with the other mixins of the pool
    def is_mixin(m):
        return is_complex(m) and m.__dict__.get('__mixin__', False) is True and m in _CUR['mixins']
    op('mix-in(first)', is_mixin, lambda m: ComplexModelMeta('Mix%d' % _next_sub(), (m, ComplexModel), {'__namespace__': 'urn:vf:c15', '_type_info': [('own', Integer)]}), None)
    op('mix-in(both)', is_mixin, lambda m: ComplexModelMeta('Mix%d' % _next_sub(), tuple([m] + [x for x in _CUR['mixins'] if x is not m] + [ComplexModel]),
                                                             {'__namespace__': 'urn:vf:c15', '_type_info': [('own', Integer)]}), None)
    op('append_field', lambda m: is_complex(m) and 'n1' not in m.get_flat_type_info(m), lambda m: (m.append_field('n1', Integer), m)[1], None, kind='evolve')
    op('insert_field', lambda m: is_complex(m) and 'n0' not in m.get_flat_type_info(m), lambda m: (m.insert_field(0, 'n0', Unicode), m)[1], None, kind='evolve')
    if tier == 'thorough':
        op('Iterable(T)', lambda m: True, lambda m: Iterable(m), None)
        op('shared-dict', lambda m: True, lambda m: m.customize(**SHARED_ATTRS), {'min_occurs': 1})
    return ops


# ------------------------------------------------------------------ snapshots

PROBES = {'Unicode': ['', 'a', 'abcdef', 'zz'], 'Integer': [0, 3, 2, 10 ** 6], 'Decimal': [decimal.Decimal('1.5'), decimal.Decimal('1234567.891')]}


def label_of(m, pool):
    for i, (lab, pm) in enumerate(pool):
        if pm is m:
            return '#%d' % i
    n = getattr(m, '__name__', repr(m))
    return '%s{%s}' % (n, attr_digest(m))


_PASS = {'memo': None}


def snapshots(pool):
    """snapshot of every pooled model in one pass (attribute records of shared types are read once per pass)"""
    _PASS['memo'] = {}
    try:
        return [snapshot(m, pool) for lab, m in pool]
    finally:
        _PASS['memo'] = None


def attr_items(m):
    memo = _PASS['memo']
    if memo is not None:
        hit = memo.get(id(m))
        if hit is not None:
            return hit
    out = _attr_items(m)
    if memo is not None:
        memo[id(m)] = out
    return out


def _attr_items(m):
    out = []
    A = m.Attributes
    for k in sorted(dir(A)):
        if k.startswith('_') or k in ('parent_variant',):
            continue
        try:
            v = getattr(A, k)
        except Exception as e:
            v = 'ERR:%s' % type(e).__name__
        if callable(v) and not isinstance(v, type):
            continue
        if isinstance(v, type):
            v = 'class:' + v.__name__
        out.append((k, repr(v)[:80]))
    return out


def attr_digest(m):
    return hashlib.sha1(repr(attr_items(m)).encode()).hexdigest()[:8]


def snapshot(m, pool):
    """observable state of one model"""
    from spyne.model.complex import ComplexModelBase
    s = {'attrs': attr_items(m), 'type_name': repr(m.__type_name__) if m.__type_name__ is not m.Empty else 'Empty'}
    if issubclass(m, ComplexModelBase):
        try:
            fti = m.get_flat_type_info(m)
            s['flat'] = [(k, label_of(v, pool), attr_digest(v)) for k, v in fti.items()]
        except Exception as e:
            s['flat'] = 'ERR:%s' % type(e).__name__
        s['own'] = [(k, label_of(v, pool)) for k, v in m._type_info.items()]
    for pname, probes in PROBES.items():
        if is_prim(m, pname):
            vs = []
            for p in probes:
                try:
                    if isinstance(p, str):
                        vs.append((repr(p), bool(m.validate_string(m, p)), bool(m.validate_native(m, p))))
                    else:
                        vs.append((repr(p), bool(m.validate_native(m, p))))
                except Exception as e:
                    vs.append((repr(p), 'ERR:%s' % type(e).__name__))
            s['verdicts'] = vs
            break
    return s


def alias_partition(pool):
    """which mutable containers are shared between pool models"""
    groups = collections.defaultdict(list)
    for i, (lab, m) in enumerate(pool):
        ti = getattr(m, '_type_info', None)
        if ti is not None:
            groups[('ti', id(ti))].append(i)
        groups[('attr', id(m.Attributes))].append(i)
    return sorted(tuple(v) for v in groups.values() if len(v) > 1)


_SCHEMA_MEMO = {}


def schema_snaps(history, tier, cfg='full'):
    """rendered XML Schema of every complex / array model of the pool, each rendered on its own, on a THROW-AWAY replay of
    the history (rendering resolves namespaces and names anonymous types, i.e. touches the classes).  -> {pool index:
    canonical text}"""
    key = (json.dumps(history), tier, cfg)
    if key in _SCHEMA_MEMO:
        return _SCHEMA_MEMO[key]
    from spyne.util.xml import get_schema_documents
    from lxml import etree
    pool = replay_history(history, tier, None, cfg)
    out = {}
    if pool is not None:
        for i, (lab, m) in enumerate(pool):
            if not (is_complex(m) or is_array(m)):
                continue
            try:
                docs = get_schema_documents([m], default_namespace='urn:vf:c15')
                # (the order of the type definitions inside a schema document is not part of this property: sorted by name)
                # and only the model's own definition: which other types share the document (known subclasses, ...) is not
                # an attribute of this model
                own = m.get_type_name()
                cts = sorted(((ct.get('name') or '', etree.tostring(ct, method='c14n').decode('utf8'), ct) for k in sorted(docs) for ct in docs[k]
                              if ct.get('name') == own), key=lambda x: x[:2])
                out[i] = hashlib.sha1('\n'.join(x[1] for x in cts).encode('utf8')).hexdigest()[:12] + '|' + ' '.join(
                    '%s(%s)' % (ct.get('name'), ','.join('%s:%s:%s:%s' % (e.get('name'), e.get('type'), e.get('minOccurs', '1'), e.get('nillable', '-'))
                                                          for e in ct.iter('{http://www.w3.org/2001/XMLSchema}element')))
                    for n_, c_, ct in cts if ct.tag == '{http://www.w3.org/2001/XMLSchema}complexType')
            except Exception as e:
                out[i] = 'ERR:%s' % type(e).__name__
    if len(_SCHEMA_MEMO) > 20000:
        _SCHEMA_MEMO.clear()
    _SCHEMA_MEMO[key] = out
    return out


def replay_history(history, tier, ops=None, cfg='full'):
    ops = ops or {o['id']: o for o in operations(tier, cfg)}
    pool = fresh_pool(cfg)
    for opid, idx in history:
        o = ops[opid]
        if idx >= len(pool) or not o['ok'](pool[idx][1]):
            return None
        new = o['fn'](pool[idx][1])
        if o['kind'] == 'derive':
            pool.append(('%s<-%s' % (opid, pool[idx][0]), new))
    return pool


def derivation_chain(history, cfg, i):
    """operation ids that produced pool model i from a seed model, outermost last"""
    n0 = POOL_SIZE[cfg]
    parents = {}
    n = n0
    for opid, idx in history:
        if opid not in ('append_field', 'insert_field'):
            parents[n] = (opid, idx)
            n += 1
    chain = []
    while i in parents:
        opid, i = parents[i]
        chain.append(opid)
    chain.reverse()
    return chain, i


FACETS = {'Unicode(max_len=5)': {'max_len': 5}, 'Integer(ge=3)': {'ge': 3}, 'Unicode(values=a,zz)': {'values': ['a', 'zz']},
          'Unicode(values=zz,abcdef)': {'values': ['zz', 'abcdef']}, 'Integer(le=2)': {'le': 2}}
EVOLVE = {'append_field': ('n1', 'Integer', {'min_occurs': 1}, 'child_attrs(n1)'), 'insert_field': ('n0', 'Unicode', {'max_len': 7}, 'child_attrs(n0)')}
PROBE_KEYS = ('min_occurs', 'max_occurs', 'nillable', 'max_len', 'min_len', 'ge', 'exc', 'default')


def check_evolve(hist, o, idx, pool, cfg, V):
    """the documented effect of append_field / insert_field on a root class: the field appears (once, at the requested
    position) in the class and in every customized variant of it and in the flat field list of every subclass; in a
    variant it carries the constraints that variant's derivation asked for (delayed child_attrs / child_attrs_all) and
    no others"""
    import spyne.model.primitive as P
    target = pool[idx][1]
    if getattr(target, '__orig__', None) is not None:
        return
    fname, ftname, want_attrs, req_op = EVOLVE[o['id']]
    plain = getattr(P, ftname)
    for i, (lab, m) in enumerate(pool):
        if not is_complex(m):
            continue
        if m is target or getattr(m, '__orig__', None) is target:
            own = list(m._type_info.keys())
            if own.count(fname) != 1:
                V('evolve', 'field-missing-in-%s' % ('class' if m is target else 'variant'), 'after %s on %s the model %s has own fields %s' % (o['id'], pool[idx][0], lab, own))
                continue
            pos_ok = own[-1] == fname if o['id'] == 'append_field' else own[0] == fname
            if not pos_ok:
                V('evolve', 'field-position', 'after %s on %s the model %s has own fields %s' % (o['id'], pool[idx][0], lab, own))
            chain, root = derivation_chain(hist[:-1], cfg, i)
            chain = [x for c in chain for x in (('child_attrs_all', 'child_attrs(n1)') if c == 'child_attrs_all+n1' else (c,))]
            alls = [c for c in chain if c in ('child_attrs_all', 'child_attrs_noexc')]
            if len(alls) > 1:
                continue
            req = {}
            if alls:
                req.update({'child_attrs_all': {'nillable': False}, 'child_attrs_noexc': {'exc': True}}[alls[0]])
            if req_op in chain:
                req.update(want_attrs)
            ft = m._type_info[fname]
            for k in PROBE_KEYS:
                got = getattr(ft.Attributes, k, None)
                exp = req[k] if k in req else getattr(plain.Attributes, k, None)
                if got != exp:
                    V('evolve', ('lost' if k in req else 'leaked') + '-constraint:%s' % k,
                      'after %s on %s the field %s of %s (derived by %s) has %s=%r, expected %r' % (o['id'], pool[idx][0], fname, lab, chain, k, got, exp))
        else:
            c, depth_ = m, 0
            related = False
            while c is not None and depth_ < 20:
                if c is target or getattr(c, '__orig__', None) is target:
                    related = True
                c = getattr(c, '__extends__', None)
                depth_ += 1
            if related:
                flat = list(m.get_flat_type_info(m).keys())
                if flat.count(fname) != 1:
                    V('evolve', 'field-missing-in-subclass', 'after %s on %s the subclass %s has flat fields %s' % (o['id'], pool[idx][0], lab, flat))


def canon(pool, snaps=None):
    snaps = snaps if snaps is not None else snapshots(pool)
    return hashlib.sha1(json.dumps([snaps, alias_partition(pool)], sort_keys=True, default=str).encode()).hexdigest()


# ------------------------------------------------------------------ search

def bounds(tier):
    return {'seed_pool': [l for l, m in fresh_pool()] if False else ['Unicode', 'Integer', 'A', 'B(A)', 'Array(A)', 'Array(Integer)', 'Decimal', 'ByteArray'],
            'operations': 24 if tier == 'quick' else 27, 'depth': 2, 'primitives_only_pool': None if tier == 'quick' else {'seed_pool': ['Unicode', 'Integer', 'Decimal', 'ByteArray'], 'depth': 3}, 'complex_only_pool': {'seed_pool': ['A', 'B(A)'], 'operations': CX_OPS, 'depth': 3 if tier == 'quick' else 4}, 'hash_seeds': ['0', '1', '7', '1234']}


def first_steps(tier, cfg='full'):
    ops = operations(tier, cfg)
    pool = fresh_pool(cfg)
    out = []
    for o in ops:
        for idx in range(len(pool)):
            if o['ok'](pool[idx][1]):
                out.append([o['id'], idx])
    return out


def shards(tier):
    """quick: full pool depth 2, complex-only pool depth 3.  thorough: full pool depth 2 with the larger operation set, complex-only
    pool depth 4, primitives-only pool depth 3 (a full-pool search to depth 3 is ~1.4 million transitions: more than an hour)"""
    out = [{'kind': 'bfs', 'prefix': [fs], 'depth': 2, 'tier': tier} for fs in first_steps(tier)]
    out += [{'kind': 'bfs', 'prefix': [fs], 'depth': 3, 'tier': tier, 'cfg': 'cx'} for fs in first_steps(tier, 'cx')]
    if tier == 'thorough':
        out += [{'kind': 'bfs', 'prefix': [fs], 'depth': 4, 'tier': tier, 'cfg': 'cx4'} for fs in first_steps(tier, 'cx4')]
    out += [{'kind': 'bfs', 'prefix': [fs], 'depth': 3, 'tier': tier, 'cfg': 'mix'} for fs in first_steps(tier, 'mix')]
    if tier == 'thorough':
        out += [{'kind': 'bfs', 'prefix': [fs], 'depth': 3, 'tier': tier, 'cfg': 'prim'} for fs in first_steps(tier, 'prim')]
    for seed in ('1', '7', '1234'):
        out.append({'kind': 'seed', 'seed': seed, 'depth': 2, 'tier': tier})
    return out


def finish(tier, agg):
    return {'states': len(agg.sets.get('canonical_states', ())), 'transitions': agg.cov.get('transitions', 0),
            'traces_validated_against_impl': agg.cov.get('histories', 0), 'explanation': 'states are canonical pool states (snapshots + alias partition); '
            'every transition is a call of the real derivation API on a pool rebuilt by replaying the history'}


def check_transition(hist, opdesc, idx, before_pool_snap, pool_before_len, pool, res, shard, tier, schema_before, cfg='full'):
    """frame / post / order invariants for the last transition"""
    o = opdesc
    key = hist

    def V(kind, detail, what):
        res['violations'].append({'sig': 'C15|%s|%s|%s' % (kind, o['id'], detail), 'what': 'history %s: %s' % (hist, what),
                                  'case': {'history': hist, 'tier': tier, 'cfg': cfg}, 'count': 1})
    if o['kind'] == 'evolve':
        check_evolve(hist, o, idx, pool, cfg, V)
    after = snapshots(pool)
    res.setdefault('_after', {})['snaps'] = [dict(x) for x in after]
    sch_b, sch_a = schema_snaps(hist[:-1], tier, cfg), schema_snaps(hist, tier, cfg)
    for i in range(pool_before_len):
        before_pool_snap[i] = dict(before_pool_snap[i], schema=sch_b.get(i))
        after[i] = dict(after[i], schema=sch_a.get(i))
    target = pool[idx][1]
    for i in range(pool_before_len):
        if before_pool_snap[i] == after[i]:
            continue
        lab, m = pool[i]
        if o['kind'] == 'evolve':
            # documented effect: the field appears in the class, its customised variants and its subclasses
            orig_t = getattr(target, '__orig__', None) or target
            related = m is target or (isinstance(m, type) and (issubclass(m, orig_t) or (getattr(m, '__orig__', None) is orig_t)))
            if related:
                continue
        changed = [k for k in set(before_pool_snap[i]) | set(after[i]) if before_pool_snap[i].get(k) != after[i].get(k)]
        d = ''
        if 'attrs' in changed:
            b_, a_ = dict(before_pool_snap[i]['attrs']), dict(after[i]['attrs'])
            d = ', '.join('%s: %s -> %s' % (k, b_.get(k), a_.get(k)) for k in sorted(set(b_) | set(a_)) if b_.get(k) != a_.get(k))[:200]
        elif 'flat' in changed or 'own' in changed:
            d = 'fields %s -> %s' % (before_pool_snap[i].get('own'), after[i].get('own'))
        elif 'schema' in changed:
            d = 'rendered schema %s -> %s' % (before_pool_snap[i].get('schema'), after[i].get('schema'))
        V('frame', 'operand=%s|changed=%s:%s' % (kind_of_model(target), kind_of_model(m), '+'.join(sorted(changed))),
          'applying it to %s changed the existing model %s (%s)' % (pool[idx][0], lab, d or changed))
    if o['kind'] == 'derive':
        new = pool[-1][1]
        if new is target:
            V('post', 'same-object', 'the operation returned its operand instead of a new type')
        if o['id'] in ('Array(T)', 'Iterable(T)') and new is not target:
            # the collection is a collection of ITS operand: same members, same constraints (occurrence apart)
            try:
                member = list(new._type_info.values())[0]
                skip = ('min_occurs', 'max_occurs', 'max_str_len', 'nullable', 'sqla_column_args', 'translations')
                ma = dict((k, v) for k, v in _attr_items(member) if k not in skip)
                ta = dict((k, v) for k, v in _attr_items(target) if k not in skip)
                diff = sorted(k for k in set(ma) | set(ta) if ma.get(k) != ta.get(k))
                if diff:
                    V('post', 'collection-member-attributes:%s' % ','.join(diff)[:60], 'the member type of the new collection differs from the operand %s in %s' % (
                        pool[idx][0], ['%s: %s -> %s' % (k, ta.get(k), ma.get(k)) for k in diff][:4]))
                if is_complex(target) and not is_array(target):
                    mf, tf = list(member.get_flat_type_info(member)), list(target.get_flat_type_info(target))
                    if mf != tf:
                        V('post', 'collection-member-fields', 'the member type of the new collection has fields %s, the operand %s has %s' % (mf, pool[idx][0], tf))
            except Exception as e:
                V('post', 'collection-member-raises:%s' % type(e).__name__, 'looking at the member type of the new collection raised %r' % (e,))
        if o['req']:
            for k, v in o['req'].items():
                got = getattr(new.Attributes, k, None)
                if got != v:
                    V('post', 'requested-attribute-missing:%s' % k, 'new model has %s=%r, requested %r' % (k, got, v))
            b_ = dict(before_pool_snap[idx]['attrs'])
            a_ = dict(after[-1]['attrs'])
            extra = [k for k in sorted(set(b_) | set(a_)) if b_.get(k) != a_.get(k) and k not in o['req'] and k not in ('max_str_len', 'nullable', 'nillable', 'pattern', 'sqla_column_args', 'translations')]
            if extra:
                V('post', 'unrequested-attribute-changed:%s' % ','.join(extra)[:60], 'attributes %s differ from the operand although not requested' % extra)
    # verdicts: every primitive of the pool validates the probe values as the reference predicate says for the facets its
    # derivation chain asked for (a verdict may not come from anybody else's constraints, however they are cached)
    from vf.ref import validity
    n0 = POOL_SIZE[cfg]
    for i, (lab, m) in enumerate(pool):
        for pname, probes in PROBES.items():
            if pname == 'Decimal' or not is_prim(m, pname) or (pname == 'Integer' and False):
                continue
            chain, root = derivation_chain(hist, cfg, i)
            facets = {}
            ok_chain = True
            for opid in chain:
                f = FACETS.get(opid)
                if f is None:
                    if opid.startswith(('customize(', 'shared-dict')):
                        continue      # occurrence / naming attributes: no influence on the verdict of a value
                    ok_chain = False
                    break
                facets.update(f)
            if not ok_chain:
                continue
            t = ['p', pname, facets]
            for pr in probes:
                want = validity.scalar_ok(t, pr)
                try:
                    got = bool(m.validate_native(m, pr)) and (not isinstance(pr, str) or bool(m.validate_string(m, pr)))
                except Exception as e:
                    got = 'ERR:%s' % type(e).__name__
                if got != want:
                    V('verdict', '%s|%s' % (pname, 'accepts' if got is True else 'rejects' if got is False else got),
                      'model %s (derived by %s, facets %s) %s %r, the reference predicate says %s' % (
                          lab, chain, facets, 'accepts' if got is True else 'rejects', pr, 'accept' if want else 'reject'))
                    break
            break
    # order: declaration order, parents first
    from spyne.model.complex import ComplexModelBase
    for lab, m in pool:
        if is_complex(m):
            try:
                flat = list(m.get_flat_type_info(m).keys())
            except Exception:
                continue
            # declaration order, parents first: follow the documented parent link (__extends__), each class
            # contributing its own declared fields in its own order
            chain = []
            c = m
            while c is not None and len(chain) < 20:
                chain.append(c)
                c = getattr(c, '__extends__', None)
            want = []
            for c in reversed(chain):
                for k in c._type_info.keys():
                    if k not in want:
                        want.append(k)
            if flat != want:
                V('order', kind_of_model(m), 'flat field order of %s is %s, declaration order (parents first) is %s' % (lab, flat, want))
                break
    if o['id'] == 'shared-dict' and SHARED_ATTRS != {'min_occurs': 1}:
        V('caller-dict-mutated', '', 'the attribute dict passed by the caller was changed to %r' % (SHARED_ATTRS,))


def kind_of_model(m):
    if is_array(m):
        return 'array'
    if is_complex(m):
        return 'complex'
    return 'primitive'


def run_shard(shard, only=None):
    res = {'evaluations': 0, 'nontrivial': 0, 'outcomes': {}, 'violations': [], 'samples': [], 'cov': {'transitions': 0, 'histories': 0}, 'notes': {},
           'sets': {'canonical_states': []}}
    tier = shard['tier']
    if shard['kind'] == 'seed':
        env = dict(os.environ)
        env['PYTHONHASHSEED'] = shard['seed']
        env['VF_ENV_READY'] = '1'
        code = 'import logging;logging.disable(50);import warnings;warnings.simplefilter("ignore");from vf.props import c15;import json;print(json.dumps(c15.state_digest(%r, %d)))' % (tier, shard['depth'])
        p = subprocess.Popen([sys.executable, '-c', code], env=env, stdout=subprocess.PIPE, stderr=subprocess.PIPE, text=True)
        ours = state_digest(tier, shard['depth'])
        so, se = p.communicate()
        if p.returncode != 0:
            raise RuntimeError('hash-seed sub-process failed: %s' % se[-500:])
        theirs = json.loads(so.strip().splitlines()[-1])
        res['evaluations'] += 1
        res['cov']['hash_seed_processes'] = 1
        if theirs != ours:
            diff = [k for k in ours if theirs.get(k) != ours[k]][:3]
            res['violations'].append({'sig': 'C15|hash-seed-dependent', 'what': 'canonical states differ between PYTHONHASHSEED=0 and %s for histories %s' % (shard['seed'], diff),
                                      'case': {'seed': shard['seed'], 'tier': tier}, 'count': 1})
        else:
            res['nontrivial'] += 1
        return res
    cfg = shard.get('cfg', 'full')
    ops = {o['id']: o for o in operations(tier, cfg)}
    oplist = operations(tier, cfg)
    depth = shard['depth']
    frontier = collections.deque([list(map(list, shard['prefix']))])
    seen = set()
    start_hist = [list(x) for x in shard['prefix']]
    # the prefix transition itself is checked too
    todo = collections.deque([(start_hist[:-1], start_hist[-1])])
    while todo:
        hist, step = todo.popleft()
        if only is not None and (hist + [step]) != only:
            if len(hist) + 1 < len(only) and only[:len(hist) + 1] == hist + [step]:
                pass
            elif only[:len(hist) + 1] != hist + [step]:
                continue
        pool = replay_history(hist, tier, ops, cfg)
        if pool is None:
            continue
        opid, idx = step
        o = ops[opid]
        if idx >= len(pool) or not o['ok'](pool[idx][1]):
            continue
        before = snapshots(pool)
        n_before = len(pool)
        try:
            new = o['fn'](pool[idx][1])
        except Exception as e:
            res['violations'].append({'sig': 'C15|operation-raises|%s|%s' % (opid, type(e).__name__), 'what': 'history %s: %s raised %r' % (hist + [step], opid, e),
                                      'case': {'history': hist + [step], 'tier': tier, 'cfg': cfg}, 'count': 1})
            continue
        if o['kind'] == 'derive':
            pool.append(('%s<-%s' % (opid, pool[idx][0]), new))
        h2 = hist + [step]
        res['evaluations'] += 1
        res['cov']['transitions'] += 1
        res['cov']['histories'] += 1
        if only is None or h2 == only:
            check_transition(h2, o, idx, before, n_before, pool, res, shard, tier, None, cfg)
        k = canon(pool, (res.pop('_after', None) or {}).get('snaps') if (only is None or h2 == only) else None) + hashlib.sha1(json.dumps(schema_snaps(h2, tier, cfg), sort_keys=True).encode()).hexdigest()[:10]
        if k not in seen:
            seen.add(k)
            res['sets']['canonical_states'].append(k)
            res['nontrivial'] += 1
            if len(h2) < depth:
                for o2 in oplist:
                    for j in range(len(pool)):
                        if o2['ok'](pool[j][1]):
                            todo.append((h2, [o2['id'], j]))
        if not res['samples']:
            res['samples'].append({'history': h2, 'pool': [lab for lab, m in pool]})
    res['outcomes']['histories'] = res['cov']['histories']
    from vf.props.c01 import compress
    return compress(res)


def state_digest(tier, depth):
    """{history json: canonical digest} for all histories up to depth (used by the hash-seed comparison)"""
    ops = {o['id']: o for o in operations(tier)}
    oplist = operations(tier)
    out = {}
    todo = collections.deque([[]])
    while todo:
        hist = todo.popleft()
        pool = replay_history(hist, tier, ops)
        if pool is None:
            continue
        if hist:
            out[json.dumps(hist)] = canon_stable(pool) + hashlib.sha1(json.dumps(schema_snaps(hist, tier), sort_keys=True).encode()).hexdigest()[:10]
        if len(hist) < depth and len(hist) < 1 + (depth > 1) * 1:
            for o2 in oplist:
                for j in range(len(pool)):
                    if o2['ok'](pool[j][1]):
                        todo.append(hist + [[o2['id'], j]])
    return out


def canon_stable(pool):
    """canonical form without identity-based parts (ids differ between processes)"""
    snaps = snapshots(pool)
    return hashlib.sha1(json.dumps(snaps, sort_keys=True, default=str).encode()).hexdigest()


def replay(case):
    if 'seed' in case:
        r = run_shard({'kind': 'seed', 'seed': case['seed'], 'depth': 2, 'tier': case['tier']})
        return r['violations']
    hist = case['history']
    r = run_shard({'kind': 'bfs', 'prefix': [hist[0]], 'depth': len(hist), 'tier': case['tier'], 'cfg': case.get('cfg', 'full')}, only=hist)
    return r['violations']
