"""C07 - WSDL/XSD are well-formed, closed, deterministic and drive a foreign client.

Bounded-exhaustive enumeration (E1) of a feature lattice of applications - number of services x custom operation
names x custom message names x in/out headers x declared faults x port types x namespaces x body style x SOAP
version - taken in full, plus the level-A programs.  Oracles: (1) the WSDL parses and every QName reference resolves
to a definition in the document or an XSD built-in; (2) every exposed method is exactly one portType operation with a
matching binding operation, existing messages and one fault per declared fault; (3) the bytes are identical when the
application is built twice in one process and in fresh interpreter processes under enumerated PYTHONHASHSEED values;
(4) zeep, given only the WSDL bytes, produces requests the server accepts (function sees equal arguments), decodes
the replies to the returned values and surfaces declared faults."""
import hashlib
import itertools
import re
import json
import os
import subprocess
import sys

from lxml import etree

from vf import tagged, harness, spec, drv, universe, zeepdrv
from vf.ref import xsdcodec, wsdlcheck, xsdlex
from vf.tagged import Obj
from vf.props import c01

ID = 'C07'
LEVEL = 'exploration'
RULE = ('every application of the feature lattice (and every level-A program for zeep): structural WSDL checks, determinism across '
        'enumerated hash seeds and repetitions, zeep round trips of every method; non-trivial when a WSDL was produced and checked; '
        'distinct by (application, oracle)')
ASSUMPTIONS = ['zeep 4.3.3 is the independent WSDL-driven toolkit; where zeep and vf.ref.xsdlex read a literal differently the case is logged as a decoder deviation, not reported',
               'hash seeds are enumerated as {0,1,2,3,5,8,13,21} plus two random ones']
FLOOR = {'quick': 300, 'thorough': 3000}
TNS = universe.TNS
I = ['p', 'Integer', {}]
U = ['p', 'Unicode', {}]
SEEDS = ['0', '1', '2', '3', '5', '8', '13', '21', 'random', 'random']


def lattice(tier):
    nserv = [1, 2] if tier == 'quick' else [1, 2, 3]
    # ('svc': the service declares a default header class; one method overrides it with another class, the other uses it)
    hdrs = [0, 1, 2, 'svc']
    nss = [1, 3] if tier == 'quick' else [1, 2, 3]
    out = []
    for ns_, opn, msgn, hd, flt, pt, nn, style, proto in itertools.product(nserv, (False, True), (False, True), hdrs, ('none', 'one', 'shared', 'foreign-ns'),
                                                                         (False, True, 'first', 'last'), nss, ('wrapped', 'bare', 'out_bare'), ('soap11', 'soap12')):
        if pt in ('first', 'last') and ns_ < 2:
            continue      # (port types on the first / on the last service only: needs two services)
        out.append(dict(nserv=ns_, opname=opn, msgnames=msgn, headers=hd, faults=flt, port_types=pt, namespaces=nn, style=style, proto=proto))
    return out


def lattice_program(f):
    ns_of = [None, 'urn:vf:o1', 'urn:vf:o2']
    classes = []
    nn = f['namespaces']
    classes.append({'n': 'P0', 'fields': [['x', I], ['s', U]]})
    # a subclass whose name sorts before its parent's: only the dependency sort of the schema builder orders the two
    # (and whose parent is referenced through the inheritance link alone)
    classes.append({'n': 'Zbase', 'fields': [['k', I]]})
    classes.append({'n': 'Aaa', 'base': 'Zbase', 'fields': [['extra', I]]})
    if nn >= 2:
        classes.append({'n': 'P1', 'ns': ns_of[1], 'fields': [['p0', ['c', 'P0', {}]], ['l', ['a', I, {}]]]})
    if nn >= 3:
        classes.append({'n': 'P2', 'ns': ns_of[2], 'base': None, 'fields': [['p1', ['c', 'P1', {}]], ['d', ['p', 'Date', {}]]]})
    if nn >= 3:
        # a hub whose schema has to import four other namespaces (import order must not depend on set iteration)
        for k in range(4):
            classes.append({'n': 'Q%d' % k, 'ns': 'urn:vf:q%d' % k, 'fields': [['v', I]]})
        classes.append({'n': 'Hub', 'fields': [['q%d' % k, ['c', 'Q%d' % k, {}]] for k in range(4)] + [['p2', ['c', 'P2', {}]]]})
    top = 'P%d' % (nn - 1)
    hs = []
    for i in range(2 if f['headers'] == 'svc' else f['headers']):
        classes.append({'n': 'H%d' % i, 'fields': [['h', U], ['n', I]]})
        hs.append('H%d' % i)
    # ('foreign-ns': the fault class declares a namespace of its own, other than the application's)
    faults = [{'n': 'F1', 'ns': 'urn:vf:faults'} if f['faults'] == 'foreign-ns' else {'n': 'F1'}] if f['faults'] != 'none' else []
    services = []
    for si in range(f['nserv']):
        a = {'n': 'a%d' % si, 'args': [['p', ['c', top, {}]]] + ([] if f['style'] == 'bare' else [['n', I]]), 'ret': ['c', top, {}], 'kw': {}}
        b = {'n': 'b%d' % si, 'args': [['q', I], ['t', U], ['sub', ['c', 'Aaa', {}]]] + ([['hub', ['c', 'Hub', {}]]] if nn >= 3 else []), 'ret': U, 'kw': {}}
        if f['style'] != 'wrapped':
            a['kw']['_body_style'] = f['style']
        if f['opname']:
            b['kw']['_operation_name'] = 'Op%d' % si
        if f['msgnames']:
            a['kw']['_in_message_name'] = 'In%d' % si
            a['kw']['_out_message_name'] = 'Out%d' % si
        if f['headers'] == 'svc':
            a['in_header'], a['out_header'] = ['H1'], ['H1']
            b.update({'in_header': ['H0'], 'out_header': ['H0'], 'header_from_service': True})
        elif hs:
            a['in_header'] = list(hs)
            a['out_header'] = list(hs)
        if f['faults'] in ('one', 'shared', 'foreign-ns'):
            a['throws'] = ['F1']
        if f['faults'] == 'shared':
            b['throws'] = ['F1']
        s = {'n': 'S%d' % si, 'methods': [a, b]}
        if f['headers'] == 'svc':
            s['in_header'], s['out_header'] = ['H0'], ['H0']
        if f['port_types'] is True or (f['port_types'] == 'first' and si == 0) or (f['port_types'] == 'last' and si == f['nserv'] - 1):
            s['port_types'] = ['PT%d' % si]
            a['kw']['_port_type'] = 'PT%d' % si
            b['kw']['_port_type'] = 'PT%d' % si
        services.append(s)
    return {'tns': TNS, 'name': 'App', 'classes': classes, 'faults': faults, 'services': services}, top


def top_value(top):
    import datetime
    p0 = Obj('P0', x=5, s='é<&>')
    if top == 'P0':
        return p0
    p1 = Obj('P1', p0=p0, l=[1, 2])
    if top == 'P1':
        return p1
    return Obj('P2', p1=p1, d=datetime.date(2020, 2, 29))


def bounds(tier):
    return {'lattice_applications': len(lattice(tier)), 'hash_seeds': SEEDS, 'levelA_zeep_positions': ['arg', 'field', 'array', 'seq'],
            'levelA_atoms': len(universe.atoms())}


def shards(tier):
    out = []
    L = lattice(tier)
    per = 12
    for i in range(0, len(L), per):
        out.append({'kind': 'L', 'lo': i, 'hi': min(len(L), i + per), 'tier': tier})
    for si, seed in enumerate(SEEDS):
        out.append({'kind': 'det', 'seed': seed, 'si': si, 'tier': tier})
    out.append({'kind': 'S', 'tier': tier})
    for aid, at in universe.atoms(tier):
        for pos in ('arg', 'field', 'array', 'seq'):
            if universe.program_for(at, pos) is None:
                continue
            out.append({'kind': 'Z', 'atom': aid, 'pos': pos, 'tier': tier})
    return out


def build_wsdl(program, proto, validator=None):
    b = spec.build(program)
    app = spec.make_app(b, harness.make_proto(proto, validator), harness.make_proto(proto), name=program.get('name', 'App'))
    return b, app, drv.published_wsdl(app)


def digest_all(tier):
    """sha1 of the WSDL of every lattice application (used by the determinism sub-processes)"""
    out = {}
    for i, f in enumerate(lattice(tier)):
        if f['proto'] != 'soap11' and tier == 'quick':
            continue
        if tier != 'quick' and (f['opname'] or f['msgnames']):
            # (thorough: 11520 applications x 10 hash seeds, each built twice, did not finish in half an hour; custom operation /
            # message names are spelled, not iterated over, and are left to the in-process rebuild comparisons)
            continue
        program, top = lattice_program(f)
        b, app, w = build_wsdl(program, f['proto'])
        out[str(i)] = hashlib.sha1(w).hexdigest()
    return out


def expected_ops(program):
    ops = {}
    for s in program['services']:
        for m in s['methods']:
            kw = m.get('kw') or {}
            name = kw.get('_operation_name') or m['n']
            ops[name] = (m, s)
    return ops


def structural(program, w, res, V):
    try:
        doc = wsdlcheck.Wsdl(w)
    except Exception as e:
        V('wsdl-unparsable', type(e).__name__, 'WSDL cannot be parsed: %r' % (e,))
        return
    probs = doc.closure_problems()
    if probs:
        V('qname-unresolved', probs[0].split(':')[0][:40], 'QName reference does not resolve: %s (%d problems)' % (probs[0], len(probs)))
    dups = doc.duplicate_problems()
    if dups:
        V('definition-not-unique', dups[0].split(' ')[0], 'a reference no longer resolves to exactly one definition: %s (%d problems)' % (dups[0], len(dups)))
    ops = doc.operations()
    bops = doc.binding_operations()
    want = expected_ops(program)
    for name, (m, s) in want.items():
        got = ops.get(name, [])
        if len(got) != 1:
            V('operation-count', str(len(got)), 'method %s appears as %d portType operations named %r' % (m['n'], len(got), name))
            continue
        pn, im, om, faults = got[0]
        for msg in (im, om):
            if msg is None or msg.split(':')[-1] not in doc.messages:
                V('message-missing', '', 'operation %s refers to message %r which is not defined' % (name, msg))
        if sorted(faults) != sorted(m.get('throws') or []):
            V('fault-list', '', 'operation %s declares faults %s, method throws %s' % (name, faults, m.get('throws') or []))
        bg = bops.get(name, [])
        if len(bg) != 1:
            V('binding-operation-count', str(len(bg)), 'operation %s has %d binding operations' % (name, len(bg)))
        elif sorted(bg[0][1]) != sorted(m.get('throws') or []):
            V('binding-fault-list', '', 'binding operation %s declares faults %s, method throws %s' % (name, bg[0][1], m.get('throws') or []))
    extra = set(ops) - set(want)
    if extra:
        V('unexpected-operation', '', 'portType operations %s do not correspond to a method' % sorted(extra))
    for sn, sv in doc.services.items():
        for port in sv.findall(wsdlcheck.q(wsdlcheck.WSDL, 'port')):
            bname = (port.get('binding') or '').split(':')[-1]
            if bname not in doc.bindings:
                V('port-binding-missing', '', 'port %s refers to binding %r which is not defined' % (port.get('name'), port.get('binding')))


def zeep_calls(program, b, app, w, proto, res, V, values=None):
    """every method through zeep; values: {method name: (args, ret)} reference values"""
    from spyne.server.wsgi import WsgiApplication
    import zeep
    from zeep.exceptions import Fault as ZFault
    wa = WsgiApplication(app)
    try:
        cl = zeepdrv.make_client(w, wa)
    except Exception as e:
        V('zeep-cannot-bind', type(e).__name__, 'zeep cannot build a client from the WSDL: %r' % (e,))
        return
    h = harness.XmlHarness(program, proto, None, built=b)
    for mname, (args, ret, raise_fault) in values.items():
        m = b.methods[mname]
        kw = m.get('kw') or {}
        opname = kw.get('_operation_name') or m['n']
        style = xsdcodec.body_style(m)
        b.rec.reset()
        if raise_fault:
            fc = b.faults[raise_fault]
            b.rec.script[mname] = ('raise', lambda fc=fc: fc('Client.Declared', 'declared fault'))
        else:
            b.rec.script[mname] = ('ret', h.natives(m, ret))
        hdr = None
        try:
            root_decl = h.codec.s.global_element(b.tns, xsdcodec.in_message_name(m))
            if style == 'bare':
                zargs = zeepdrv.zeep_value(h.codec, root_decl, m['args'][0][1], args[0]) if m['args'] else {}
                if not isinstance(zargs, dict):
                    zargs = {}
            else:
                ct = h.codec.s.complex(root_decl)
                ps, _ = h.codec.s.all_particles(ct)
                zargs = {}
                for p, (an, at), v in zip(ps, m['args'], args):
                    zv = zeepdrv.zeep_value(h.codec, p, at, v)
                    if zv is not None:
                        zargs[p.name] = zv
            op = zeepdrv.find_operation(cl, opname)
            hdr = None
            if m.get('in_header'):
                hdr = {hn: {'h': 'hv', 'n': 3} for hn in m['in_header']}
            res['cov']['zeep_calls'] = res['cov'].get('zeep_calls', 0) + 1
            cl._vf_transport.last_request = None
            cl._vf_transport.last_response = None
            r = op(_soapheaders=hdr, **zargs) if hdr else op(**zargs)
        except ZFault as zf:
            if raise_fault:
                codes = str(zf.code) + '.' + '.'.join(str(x) for x in (getattr(zf, 'subcodes', None) or []))
                ok_code = 'Client.Declared' in codes or (proto == 'soap12' and 'Sender' in codes and 'Declared' in codes)
                if not ok_code or zf.message != 'declared fault':
                    V('zeep-fault', '', 'declared fault surfaced by zeep as code=%r message=%r' % (zf.code, zf.message))
                else:
                    res['outcomes']['zeep-fault-ok'] = res['outcomes'].get('zeep-fault-ok', 0) + 1
                continue
            if zeep_request_invalid(h, cl, proto):
                res['notes']['zeep-encoder-deviation(request invalid under the schema)'] = res['notes'].get('zeep-encoder-deviation(request invalid under the schema)', 0) + 1
                continue
            V('zeep-call-faulted', str(zf.code)[:40], 'zeep call of %s answered with fault %s: %s; request=%r' % (opname, zf.code, zf.message, (cl._vf_transport.last_request or b'')[:400]))
            continue
        except Exception as e:
            if hdr and cl._vf_transport.last_request is None and isinstance(e, (TypeError, KeyError, AttributeError, ValueError)):
                # nothing was sent: the client built from the WSDL does not accept the header blocks the method declares
                # (their values are a text and an integer: nothing the toolkit could fail to encode)
                V('zeep-header-not-offered', type(e).__name__, 'zeep built from the WSDL refuses the declared header(s) %s of %s: %r' % (sorted(hdr), opname, e))
                continue
            if 'zeep' in (type(e).__module__ or '') or drv.innermost_spyne_frame(e) == 'outside-spyne':
                # the toolkit itself could not encode the value or decode the reply: only reported when the reply is
                # not valid under the published schema
                if cl._vf_transport.last_response is None or not zeep_response_invalid(h, cl, proto):
                    res['notes']['zeep-internal-error:%s' % type(e).__name__] = res['notes'].get('zeep-internal-error:%s' % type(e).__name__, 0) + 1
                    continue
            V('zeep-call-raises', type(e).__name__, 'zeep call of %s raised %r; request=%r' % (opname, e, (cl._vf_transport.last_request or b'')[:300]))
            continue
        if raise_fault:
            V('zeep-fault-missing', '', 'function raised a declared fault, zeep returned %r' % (r,))
            continue
        calls = h.captured(mname)
        if len(calls) != 1:
            V('zeep-invocations', str(len(calls)), 'function entered %d times for one zeep call' % len(calls))
            continue
        if not tagged.equal(args, calls[0][1]):
            if not deviation_only(args, calls[0][1]):
                V('zeep-args', '', 'zeep sent %r, function received %r; request=%r' % (args, calls[0][1], (cl._vf_transport.last_request or b'')[:400]))
            else:
                res['notes']['zeep-encoder-deviation'] = res['notes'].get('zeep-encoder-deviation', 0) + 1
        if m.get('in_header'):
            hv = calls[0][2]
            if not all(isinstance(hv.get(hn), Obj) and hv[hn].f.get('h') == 'hv' and hv[hn].f.get('n') == 3 for hn in m['in_header']):
                V('zeep-header', '', 'zeep sent headers, function saw %r' % (hv,))
        rt = m.get('ret')
        if m.get('out_header') and hasattr(r, 'body'):
            r = r.body
            if rt is not None and style == 'wrapped':
                r = getattr(r, list(r.__values__.keys())[0]) if hasattr(r, '__values__') and len(r.__values__) == 1 else r
        if rt is not None and not isinstance(rt[0], list):
            try:
                got = zeepdrv.from_zeep(b, rt, r)
            except Exception as e:
                V('zeep-result-shape', type(e).__name__, 'cannot map the zeep result %r: %r' % (r, e))
                continue
            if not tagged.equal(ret, got):
                if deviation_only(ret, got):
                    res['notes']['zeep-decoder-deviation'] = res['notes'].get('zeep-decoder-deviation', 0) + 1
                else:
                    V('zeep-result', '', 'function returned %r, zeep decoded %r; response=%r' % (ret, got, (cl._vf_transport.last_response or b'')[:400]))
                    continue
        res['outcomes']['zeep-ok'] = res['outcomes'].get('zeep-ok', 0) + 1
        res['nontrivial'] += 1


def _payload_valid(h, data, proto):
    try:
        doc = etree.fromstring(data)
        env = xsdcodec.envelope_ns(proto)
        body = doc.find(xsdcodec.q(env, 'Body'))
        return h.lxml_schema().validate(body[0])
    except Exception:
        return None


def zeep_request_invalid(h, cl, proto):
    return _payload_valid(h, cl._vf_transport.last_request or b'', proto) is False


def zeep_response_invalid(h, cl, proto):
    return _payload_valid(h, cl._vf_transport.last_response or b'', proto) is False


def deviation_only(want, got):
    """DESIGN 1.3 rule 5: a value disagreement with the third-party toolkit is only reported when it is not a
    known conversion deviation of the toolkit itself (zeep drops microsecond/offset forms the reference accepts,
    maps empty strings to None, turns xs:integer beyond 64 bit into Decimal ...)."""
    import datetime as _dt
    import decimal

    def norm(x):
        if isinstance(x, Obj):
            if all(norm(v) is None for v in x.f.values()):
                return None      # zeep reads a nil object as an object without values and an empty element as no object
            return ('O', x.cls, tuple(sorted((k, norm(v)) for k, v in x.f.items())))
        if isinstance(x, (list, tuple)):
            return tuple(norm(v) for v in x) or None
        if isinstance(x, str) and x.strip() == '':
            return None
        if isinstance(x, (int, decimal.Decimal, float)) and not isinstance(x, bool):
            try:
                return decimal.Decimal(str(x)).normalize()
            except Exception:
                return str(x)
        if isinstance(x, _dt.datetime):
            return x.astimezone(_dt.timezone.utc).replace(tzinfo=None) if x.tzinfo else x
        if isinstance(x, _dt.time):
            return x.replace(tzinfo=None)
        if isinstance(x, (bytes, bytearray)) and len(x) == 0:
            return None
        return x
    try:
        return norm(want) == norm(got)
    except Exception:
        return False


def run_shard(shard, only=None):
    res = {'evaluations': 0, 'nontrivial': 0, 'outcomes': {}, 'violations': [], 'samples': [], 'cov': {'programs': 0}, 'notes': {}}
    tier = shard['tier']
    if shard['kind'] == 'L':
        L = lattice(tier)
        for i in range(shard['lo'], shard['hi']):
            f = L[i]
            if only is not None and only != i:
                continue
            program, top = lattice_program(f)
            fid = ','.join('%s=%s' % (k, f[k]) for k in ('style', 'faults', 'headers', 'opname', 'msgnames', 'port_types', 'namespaces', 'nserv', 'proto'))
            casedoc = {'shard': shard, 'only': i}

            def V(kind, detail, what, f=f, casedoc=casedoc, fid=fid):
                feats = 'style=%s,proto=%s' % (f['style'], f['proto'])
                res['violations'].append({'sig': 'C07|%s|%s|%s' % (kind, feats, detail), 'what': '[%s] %s' % (fid, what), 'case': casedoc, 'count': 1})
            res['evaluations'] += 1
            try:
                b, app, w = build_wsdl(program, f['proto'])
            except Exception as e:
                V('build', type(e).__name__ + '@' + drv.innermost_spyne_frame(e), 'application / WSDL cannot be built: %r' % (e,))
                continue
            res['cov']['programs'] += 1
            structural(program, w, res, V)
            # built twice in one process: byte-identical
            b2, app2, w2 = build_wsdl(program, f['proto'])
            if w2 != w:
                V('nondeterministic-in-process', '', 'two builds of the same application in one process differ (%d vs %d bytes)' % (len(w), len(w2)))
            # the same Application object publishing again (another transport), also after its validation schema was built
            w3 = drv.published_wsdl(app)
            if w3 != w:
                V('nondeterministic-rebuild', 'second-transport', 'the second WSDL built from the same Application object differs from the first (%d vs %d bytes)' % (len(w), len(w3)))
            try:
                from spyne.interface.xml_schema import XmlSchema
                xs = XmlSchema(app.interface)
                xs.build_validation_schema()
            except Exception as e:
                V('validation-schema', type(e).__name__, 'the validation schema of the application cannot be built: %r' % (e,))
            # fresh document objects over the same interface (what every transport and the lxml validator make)
            try:
                from spyne.interface.wsdl import Wsdl11
                url = etree.fromstring(w).find('.//{http://schemas.xmlsoap.org/wsdl/soap/}address')
                url = url.get('location') if url is not None else etree.fromstring(w).find('.//{http://schemas.xmlsoap.org/wsdl/soap12/}address').get('location')
                for rep in (1, 2):
                    doc = Wsdl11(app.interface)
                    doc.build_interface_document(url)
                    wd = doc.get_interface_document()
                    if wd != w:
                        V('nondeterministic-rebuild', 'fresh-document-object', 'build #%d of a fresh Wsdl11 document over the same interface differs from the published WSDL (%d vs %d bytes)' % (
                            rep + 1, len(wd), len(w)))
                        break
            except Exception as e:
                V('rebuild-raises', type(e).__name__, 'building a second WSDL document from the same interface raised %r' % (e,))
            # what is published does not depend on how requests are validated (a validating protocol builds its schema
            # from the application's own document objects before the first WSDL is asked for)
            # (thorough tier: the validator and ?wsdl-history steps run on the quarter of the lattice without custom operation
            # / message names - those dimensions do not touch what the steps look at, and the lattice is 2.5 times larger)
            deep = tier == 'quick' or not (f['opname'] or f['msgnames'])
            for validator in (('lxml', 'soft') if deep else ()):
                try:
                    b5, app5, w5 = build_wsdl(program, f['proto'], validator)
                    if w5 != w:
                        V('wsdl-depends-on-validator', validator, 'the WSDL of the same application with validator=%r differs from the one with validator=None (%d vs %d bytes)' % (
                            validator, len(w5), len(w)))
                        structural(program, w5, res, V)
                except Exception as e:
                    V('build', 'validator=%s|%s' % (validator, type(e).__name__), 'application / WSDL cannot be built with validator=%r: %r' % (validator, e))
            # histories of ?wsdl requests on ONE transport object, from different addresses (Host, path, .wsdl form): every
            # answer is a complete document and they differ in nothing but the service address
            try:
                from spyne.server.wsgi import WsgiApplication
                # (a fresh application: nothing has been built for it yet)
                b7 = spec.build(program)
                wa = WsgiApplication(spec.make_app(b7, harness.make_proto(f['proto']), harness.make_proto(f['proto']), name=program.get('name', 'App')))
                docs_seen = [w]
                for host, path, query in () if not deep else (('localhost', '/app', 'wsdl'), ('other.example:8080', '/x/y', 'wsdl'), ('localhost', '/app', 'wsdl'),
                                          ('third.example', '/app', 'WSDL'), ('other.example:8080', '/x/y', 'wsdl')):
                    env = drv.environ('GET', path, query, b'', content_type=None, content_length=None)
                    env['HTTP_HOST'] = host
                    o = drv.call_wsgi(wa, env)
                    if o.escaped is not None or not (o.status or '').startswith('200'):
                        V('wsdl-history', 'not-served', 'request #%d (%s%s) of a ?wsdl history on one WsgiApplication: %r %r' % (len(docs_seen), host, path, o.status, o.escaped))
                        break
                    docs_seen.append(o.out)
                    norm = re.sub(rb'location="[^"]*"', b'location=""', o.out)
                    if norm != re.sub(rb'location="[^"]*"', b'location=""', docs_seen[0]):
                        V('wsdl-history', 'differs', 'answer #%d (%s%s) of a ?wsdl history on one WsgiApplication differs from the published WSDL in more than the service address (%d vs %d bytes)' % (
                            len(docs_seen) - 1, host, path, len(o.out), len(docs_seen[0])))
                        structural(program, o.out, res, V)
                        break
            except Exception as e:
                V('wsdl-history', type(e).__name__, 'a ?wsdl history raised %r' % (e,))
            w4 = drv.published_wsdl(app)
            if w4 != w:
                V('nondeterministic-rebuild', 'after-validation-schema', 'the WSDL built after the validation schema differs from the first (%d vs %d bytes)' % (len(w), len(w4)))
            tv = top_value(top)
            values = {}
            for s in program['services']:
                a, bm = s['methods']
                values[a['n']] = ([tv] if f['style'] == 'bare' else [tv, 7], tv, None)
                values[bm['n']] = ([3, 'text', Obj('Aaa', k=1, extra=2)] + ([Obj('Hub', q0=Obj('Q0', v=1), q1=None, q2=Obj('Q2', v=2), q3=None, p2=None)] if f['namespaces'] >= 3 else []), 'reply é', None)
                if a.get('throws'):
                    values[a['n'] + '!'] = None
            zv = dict((k, v) for k, v in values.items() if v is not None)
            zeep_calls(program, b, app, w, f['proto'], res, V, zv)
            flt = [s['methods'][0] for s in program['services'] if s['methods'][0].get('throws')]
            if flt:
                m0 = flt[0]
                zeep_calls(program, b, app, w, f['proto'], res, V, {m0['n']: (values[m0['n']][0], None, 'F1')})
            res['nontrivial'] += 1
            if not res['samples']:
                res['samples'].append({'features': f, 'wsdl_sha1': hashlib.sha1(w).hexdigest(), 'wsdl_bytes': len(w)})
    elif shard['kind'] == 'S':
        # the schema-specific programs of C06 (cross-namespace bases and fields, named simple types in other namespaces
        # and restrictions of them, attribute-only named types, XmlData): closure, rebuild and zeep
        from vf.props import c06
        for name, program, argcases in c06.schema_programs():
            for proto in ('soap11', 'soap12'):
                key = [name, proto]
                if only is not None and only != key:
                    continue
                casedoc = {'shard': shard, 'only': key}

                def V(kind, detail, what, casedoc=casedoc, name=name, proto=proto):
                    res['violations'].append({'sig': 'C07|%s|%s|%s|%s' % (kind, name, proto, detail), 'what': '[%s %s] %s' % (name, proto, what), 'case': casedoc, 'count': 1})
                res['evaluations'] += 1
                try:
                    b, app, w = build_wsdl(program, proto)
                except Exception as e:
                    V('build', type(e).__name__ + '@' + drv.innermost_spyne_frame(e), 'application / WSDL cannot be built: %r' % (e,))
                    continue
                res['cov']['programs'] += 1
                structural(program, w, res, V)
                if drv.published_wsdl(app) != w or build_wsdl(program, proto)[2] != w:
                    V('nondeterministic-in-process', '', 'two builds of the same application differ')
                m = program['services'][0]['methods'][0]
                for args in argcases:
                    if isinstance(args, dict):
                        zeep_calls(program, b, app, w, proto, res, V, {m['n']: (args['args'], args['ret'], None)})
                    else:
                        zeep_calls(program, b, app, w, proto, res, V, {m['n']: (args, args[0], None)})
                res['nontrivial'] += 1
    elif shard['kind'] == 'det':
        # fresh interpreter with the given hash seed builds every lattice application; digests must equal ours
        env = dict(os.environ)
        env['PYTHONHASHSEED'] = shard['seed']
        env['VF_ENV_READY'] = '1'
        code = 'import sys,json,logging;logging.disable(50);import warnings;warnings.simplefilter("ignore");from vf.props import c07;print(json.dumps(c07.digest_all(%r)))' % tier
        p = subprocess.run([sys.executable, '-c', code], env=env, stdout=subprocess.PIPE, stderr=subprocess.PIPE, text=True)
        res['evaluations'] += 1
        if p.returncode != 0:
            raise RuntimeError('determinism sub-process failed: %s' % p.stderr[-600:])
        theirs = json.loads(p.stdout.strip().splitlines()[-1])
        ours = digest_all(tier)
        L = lattice(tier)
        for k, d in ours.items():
            res['evaluations'] += 1
            if theirs.get(k) != d:
                f = L[int(k)]
                res['violations'].append({'sig': 'C07|nondeterministic-across-processes|namespaces=%s' % f['namespaces'],
                                          'what': 'WSDL of lattice application %s differs between this process (PYTHONHASHSEED=0) and a fresh process with PYTHONHASHSEED=%s: %s vs %s' % (
                                              k, shard['seed'], d, theirs.get(k)),
                                          'case': {'shard': shard, 'only': int(k)}, 'count': 1})
            else:
                res['nontrivial'] += 1
        res['cov']['hash_seed_processes'] = 1
        res['outcomes']['det-compared'] = len(ours)
    else:
        at = c01.atom_by_id(shard['atom'])
        program = universe.program_for(at, shard['pos'])
        m = program['services'][0]['methods'][0]
        for proto in ('soap11', 'soap12'):
            b, app, w = build_wsdl(program, proto)
            res['cov']['programs'] += 1
            for label, v in universe.slot_values(shard['pos'], at, tier, 6 if tier == 'quick' else None):
                if only is not None and only != [proto, label]:
                    continue
                if label == 'none-member':
                    continue   # zeep cannot send a nil member of a list (toolkit limitation)
                args, ret, ih, oh = universe.embed(shard['pos'], at, v)
                casedoc = {'shard': shard, 'only': [proto, label]}

                def V(kind, detail, what, casedoc=casedoc, label=label):
                    res['violations'].append({'sig': 'C07|%s|%s|%s|%s|%s' % (kind, proto, c01_family(shard['atom']), shard['pos'], detail),
                                              'what': '[%s %s %s %s] %s' % (proto, shard['atom'], shard['pos'], label, what), 'case': casedoc, 'count': 1})
                res['evaluations'] += 1
                zeep_calls(program, b, app, w, proto, res, V, {'m': (args, ret, None)})
    return c01.compress(res)


def c01_family(aid):
    from vf.props.c02 import family
    return family(aid)


def replay(case):
    r = run_shard(case['shard'], only=case.get('only'))
    return r['violations']
