"""C13 - WSGI response protocol and request-size limit.

Model checking (E3a): tla/Wsgi.tla models one WSGI exchange with all environment choices made in Init - request kind
{success, generator result, user fault, validation error, unknown method, malformed body, ?wsdl}, body length,
max_content_length, CONTENT_LENGTH {absent, empty, smaller, equal, larger than the body or the limit}, block length,
short reads, client abort after k chunks.  TLC explores it exhaustively and checks the property as invariants.  Every
terminal state is a behaviour (the abstract trace is a history variable); EVERY behaviour is replayed against the real
WsgiApplication for each protocol family x chunked on/off: abstract lengths are concretised by scaling with a unit, the
driver sets environ, stream and abort point, records the concrete trace, abstracts it and compares bytes read, whether
the user function ran, the status class and the order of START / CHUNK / ITERCLOSE / CTXCLOSED.  The concrete run is
also checked for what the abstraction hides: status and header types, bytes chunks, Content-Length, and
wsgiref.validate."""
import io
import itertools
import json
import wsgiref.util
import wsgiref.validate
from lxml import etree

from vf import tagged, harness, spec, drv, universe
from vf.mc import tlc

ID = 'C13'
LEVEL = 'model_checking'
RULE = ('every terminal behaviour of tla/Wsgi.tla replayed on WsgiApplication for each (protocol family, chunked); non-trivial when the '
        'concrete exchange produced a start_response call; distinct by (behaviour, family, chunked)')
ASSUMPTIONS = ['exact sizes of individual reads are not compared, only their sum (the property bounds the sum)',
               'consecutive body chunks are collapsed before comparison (the model fixes 1 or 2 chunks, protocols may emit more)']
FLOOR = {'quick': 3000, 'thorough': 30000}
TNS = universe.TNS
I = ['p', 'Integer', {}]
_MODEL = {}
UNIT = 64


def constants(tier):
    if tier == 'quick':
        return {'MaxB': 2, 'MaxL': 2, 'Blocks': '{1, 8}'}
    return {'MaxB': 3, 'MaxL': 3, 'Blocks': '{1, 2, 8}'}


def model(tier):
    if tier not in _MODEL:
        r = tlc.run('Wsgi', constants=constants(tier), workers=8)
        beh = []
        for s in r['states']:
            if s.get('pc') == '"done"':
                beh.append({k: tlc.parse_value(s[k]) for k in ('kind', 'B', 'L', 'CL', 'K', 'short', 'abort', 'rd', 'func', 'tr', 'delivered', 'nchunks')})
        beh.sort(key=lambda b: json.dumps(b, sort_keys=True))
        _MODEL[tier] = dict(states=r['distinct'], transitions=r['generated'], behaviours=beh, cmd=r['cmd'])
    return _MODEL[tier]


def bounds(tier):
    return dict(constants(tier), model='tla/Wsgi.tla', families=['json', 'soap11'], chunked=[True, False], unit_bytes=UNIT)


def shards(tier):
    m = model(tier)
    out = []
    per = 150
    for fam in ('json', 'soap11'):
        for chunked in (True, False):
            for i in range(0, len(m['behaviours']), per):
                out.append({'fam': fam, 'chunked': chunked, 'lo': i, 'behaviours': m['behaviours'][i:i + per], 'tier': tier})
    for bp in BODY_PROTOS:
        for chunked in (True, False):
            out.append({'kind': 'bodies', 'proto': bp, 'chunked': chunked, 'tier': tier})
    for fam in ('json', 'soap11', 'xml'):
        out.append({'kind': 'lengths', 'fam': fam, 'tier': tier})
    for fam in ('json', 'soap11'):
        for chunked in (True, False):
            for first in HIST_KINDS:
                out.append({'kind': 'histories', 'fam': fam, 'chunked': chunked, 'first': first, 'tier': tier})
    return out


# ---- response bodies: every way user code can hand over a byte-string or streamed result x out protocol x chunked
BODY_FORMS = ['list', 'tuple', 'generator', 'iter', 'chain', 'map', 'one-chunk', 'empty-list', 'generator-empty-chunks']
BODY_PROTOS = ['http-bytes', 'json-iter', 'soap11-iter', 'jsonp-iter']


def body_program():
    BA = ['p', 'ByteArray', {}]
    return {'tns': TNS, 'classes': [], 'services': [{'n': 'S', 'methods': [{'n': 'b', 'args': [['a', I]], 'ret': BA},
                                                                             {'n': 'g', 'args': [['a', I]], 'ret': ['it', I, {}]}]}]}


def body_result(form, items):
    """-> script for the recorder: the user function hands `items` over in the given form"""
    import itertools as _it
    if form == 'list':
        return ('call', lambda ctx, a: list(items))
    if form == 'tuple':
        return ('call', lambda ctx, a: tuple(items))
    if form == 'generator':
        return ('gen', list(items))
    if form == 'iter':
        return ('call', lambda ctx, a: iter(list(items)))
    if form == 'chain':
        return ('call', lambda ctx, a: _it.chain(items[:1], items[1:]))
    if form == 'map':
        return ('call', lambda ctx, a: map(lambda x: x, list(items)))
    if form == 'one-chunk':
        return ('call', lambda ctx, a: [items[0]])
    if form == 'empty-list':
        return ('call', lambda ctx, a: [])
    if form == 'generator-empty-chunks':
        return ('gen', [items[0], items[0][:0] if isinstance(items[0], bytes) else items[0], items[-1]])
    raise KeyError(form)


def run_bodies(shard, res, only=None):
    from spyne.server.wsgi import WsgiApplication
    bp, chunked = shard['proto'], shard['chunked']
    for form in BODY_FORMS:
        for abort in (9, 0, 1):
            key = [form, abort]
            if only is not None and only != key:
                continue
            prog = body_program()
            if bp == 'http-bytes':
                h = harness.HttpHarness(prog)
                items, mname = [b'alpha-', b'beta-', b'gamma'], 'b'
            else:
                out = bp.split('-')[0]
                if out == 'jsonp':
                    from spyne.protocol.json import JsonP
                    b0 = spec.build(prog)
                    app = spec.make_app(b0, harness.make_proto('http'), JsonP('cb'))
                    h = type('H', (), {'b': b0, 'app': app})()
                else:
                    h = harness.HttpHarness(prog, out=out)
                items, mname = [1, 2, 3], 'g'
            b = h.b
            b.rec.reset()
            b.rec.script[mname] = body_result(form, items)
            wa = WsgiApplication(h.app, chunked=chunked)
            trace = []
            h.app.event_manager.add_listener('method_context_closed', lambda ctx: trace.append(('CTXCLOSED',)))
            env = drv.environ('GET', '/' + mname, 'a=5', b'', content_type=None, content_length=None)
            wsgiref.util.setup_testing_defaults(env)
            env['PATH_INFO'] = '/' + mname
            env['QUERY_STRING'] = 'a=5'
            res['evaluations'] += 1
            casedoc = {'shard': shard, 'only': key}

            def V(kind_, detail, what):
                res['violations'].append({'sig': 'C13|body-%s|%s|%s|%s' % (kind_, bp + (',chunked' if chunked else ',unchunked'), form, detail),
                                          'what': '[%s chunked=%s result handed over as %s, client abort after %s chunks] %s' % (bp, chunked, form, 'all' if abort == 9 else abort, what),
                                          'case': casedoc, 'count': 1})
            try:
                o = drv.call_wsgi(wsgiref.validate.validator(wa), env, abort_after=None if abort == 9 else abort, trace=trace)
            except Exception as e:
                V('validator', type(e).__name__, 'wsgiref.validate / driver raised %r' % (e,))
                continue
            if o.escaped is not None:
                V('escape', '%s@%s' % (type(o.escaped).__name__, o.escaped_where), 'exception out of the WSGI callable / validator: %r; trace %s' % (o.escaped, trace))
                continue
            ok = True
            if o.start_calls != 1 or [t[0] for t in trace].index('START') > min([i for i, t in enumerate(trace) if t[0] == 'CHUNK'] + [len(trace)]):
                V('start-response', str(o.start_calls), 'start_response called %d times / after a chunk: %s' % (o.start_calls, trace))
                ok = False
            if [t[0] for t in trace].count('CTXCLOSED') != 1:
                V('context-closed', str([t[0] for t in trace].count('CTXCLOSED')), 'context closed %d times: %s' % ([t[0] for t in trace].count('CTXCLOSED'), trace))
                ok = False
            elif abort == 9 and 'CHUNK' in [t[0] for t in trace] and [t[0] for t in trace].index('CTXCLOSED') < max(i for i, t in enumerate(trace) if t[0] == 'CHUNK'):
                V('context-closed', 'before-last-chunk', 'context closed before the body was handed over: %s' % (trace,))
                ok = False
            if any(not isinstance(c, bytes) for c in o.chunks or []):
                V('chunk-type', '', 'body chunks %r' % ([type(c).__name__ for c in o.chunks],))
                ok = False
            hd = dict((k.lower(), v) for k, v in (o.headers or []))
            if abort == 9 and o.out is not None:
                if 'content-length' in hd and int(hd['content-length']) != len(o.out):
                    V('content-length', '', 'Content-Length %s, body has %d bytes (%r)' % (hd['content-length'], len(o.out), o.out[:60]))
                    ok = False
                if not (o.status or '').startswith('200'):
                    V('status', (o.status or '')[:3], 'status %r, body %r' % (o.status, o.out[:200]))
                    ok = False
                elif bp == 'http-bytes':
                    want = b'' if form == 'empty-list' else items[0] if form == 'one-chunk' else items[0] + items[-1] if form == 'generator-empty-chunks' else b''.join(items)
                    if o.out != want:
                        V('body', '', 'function handed over %r, body is %r' % (want, o.out[:200]))
                        ok = False
                else:
                    want = [] if form == 'empty-list' else items[:1] if form == 'one-chunk' else [items[0], items[0], items[-1]] if form == 'generator-empty-chunks' else items
                    txt = o.out.decode('utf8')
                    try:
                        if bp.startswith('soap11'):
                            got = [int(e.text) for e in etree.fromstring(o.out).iter() if isinstance(e.tag, str) and e.tag.endswith('}integer')]
                        else:
                            j = txt[txt.index('(') + 1:txt.rindex(')')] if bp.startswith('jsonp') else txt
                            got = json.loads(j)
                            while isinstance(got, dict) and len(got) == 1:
                                got = list(got.values())[0]
                            got = [] if got in (None, {}) else got
                    except Exception as e:
                        got = 'undecodable: %r' % (e,)
                    if got != want:
                        V('body', '', 'function handed over %r, body %r denotes %r' % (want, o.out[:200], got))
                        ok = False
            res['cov']['body_forms'] = res['cov'].get('body_forms', 0) + 1
            res['outcomes']['conforms' if ok else 'differs'] = res['outcomes'].get('conforms' if ok else 'differs', 0) + 1
            if ok:
                res['nontrivial'] += 1


# ---- hostile CONTENT_LENGTH values: whatever the header says, at most max_content_length bytes are read
LENGTHS = ['-1', '-0', '-99', '+5', ' 5', '5 ', '5.0', '5e0', '0x10', 'abc', '', ' ', '99999999999999999999', '١٢', '1,0', '\x00', '5\n5', '0']


def run_lengths(shard, res, only=None):
    from spyne.server.wsgi import WsgiApplication
    global UNIT
    fam = shard['fam']
    UNIT = unit_for(fam)
    for cl, B, L, chunked, short in itertools.product(LENGTHS, (1, 3), (2,), (True, False), (False, True)):
        key = [cl, B, L, chunked, short]
        if only is not None and only != key:
            continue
        h = harness.DictHarness(program(), 'json', 'soft') if fam == 'json' else harness.XmlHarness(program(), fam, 'soft')
        b = h.b
        wa = WsgiApplication(h.app, chunked=chunked, max_content_length=L * UNIT)
        b.rec.reset()
        b.rec.script['m'] = ('ret', 6)
        body = document('soap11' if fam == 'soap11' else 'json', 'success', B) if fam != 'xml' else None
        if fam == 'xml':
            head, tail = ('<t:m xmlns:t="%s"><t:a>5</t:a>' % TNS).encode(), b'</t:m>'
            body = head + b' ' * (B * UNIT - len(head) - len(tail)) + tail
        stream = drv.CountingInput(body, short=short)
        env = drv.environ('POST', '/', '', body, content_type='application/json' if fam == 'json' else 'text/xml; charset=utf-8', content_length=cl, stream=stream)
        wsgiref.util.setup_testing_defaults(env)
        env['wsgi.input'] = stream
        env['CONTENT_LENGTH'] = cl
        res['evaluations'] += 1
        casedoc = {'shard': shard, 'only': key}

        def V(kind_, detail, what):
            res['violations'].append({'sig': 'C13|length-%s|%s|%s|%s' % (kind_, fam + (',chunked' if chunked else ',unchunked'), 'body>limit' if B > L else 'body<=limit', detail),
                                      'what': '[%s chunked=%s CONTENT_LENGTH=%r body=%d bytes limit=%d bytes short reads=%s] %s' % (fam, chunked, cl, len(body), L * UNIT, short, what),
                                      'case': casedoc, 'count': 1})
        o = drv.call_wsgi(wa, env)
        ok = True
        if o.escaped is not None:
            V('escape', '%s@%s' % (type(o.escaped).__name__, o.escaped_where), 'exception out of the WSGI callable: %r' % (o.escaped,))
            continue
        if stream.given > L * UNIT:
            V('read-bound', '', 'read %d bytes from wsgi.input, max_content_length is %d' % (stream.given, L * UNIT))
            ok = False
        if len(b.rec.calls) and B > L:
            V('function-ran', '', 'the user function ran although the request body is longer than max_content_length')
            ok = False
        if o.start_calls != 1:
            V('start-response', str(o.start_calls), 'start_response called %d times' % o.start_calls)
            ok = False
        st = (o.status or '')[:1]
        if st not in ('2', '4', '5') or (st == '5' and fam == 'json'):
            V('status', (o.status or '')[:3], 'status %r for a request with a hostile CONTENT_LENGTH' % (o.status,))
            ok = False
        res['cov']['hostile_lengths'] = res['cov'].get('hostile_lengths', 0) + 1
        res['outcomes']['conforms' if ok else 'differs'] = res['outcomes'].get('conforms' if ok else 'differs', 0) + 1
        if ok:
            res['nontrivial'] += 1


# ---- histories of requests on ONE WsgiApplication: what an earlier request left behind (cached documents, flags)
# ('gen-fault' / 'gen-crash': a generator method that raises a Fault / another exception before its first yield)
HIST_KINDS = ['wsdl', 'ok', 'gen', 'fault', 'invalid', 'unknown', 'malformed', 'gen-fault', 'gen-crash']


def _gen_raising(exc):
    def g(ctx, a):
        raise exc()
        yield 1     # (makes it a generator function)
    return g


def run_histories(shard, res, only=None):
    import itertools
    from spyne.server.wsgi import WsgiApplication
    from spyne.model.fault import Fault
    global UNIT
    fam, chunked = shard['fam'], shard['chunked']
    UNIT = unit_for(fam)
    depth = 3
    for rest in itertools.product(HIST_KINDS, repeat=depth - 1):
        hist = [shard['first']] + list(rest)
        if only is not None and only != hist:
            continue
        h = harness.DictHarness(program(), 'json', 'soft') if fam == 'json' else harness.XmlHarness(program(), 'soap11', 'soft')
        b = h.b
        wa = WsgiApplication(h.app, chunked=chunked)
        trace = []
        h.app.event_manager.add_listener('method_context_created', lambda ctx: trace.append(('CTXCREATED',)))
        h.app.event_manager.add_listener('method_context_closed', lambda ctx: trace.append(('CTXCLOSED',)))
        res['evaluations'] += 1
        ok = True
        for step, kind in enumerate(hist):
            del trace[:]
            b.rec.reset()
            b.rec.script['m'] = ('raise', lambda: Fault('Client.Custom', 'nope')) if kind == 'fault' else ('ret', 6)
            b.rec.script['g'] = ('gen', [1, 2])
            if kind == 'gen-fault':
                b.rec.script['g'] = ('call', _gen_raising(lambda: Fault('Client.Custom', 'nope')))
            elif kind == 'gen-crash':
                b.rec.script['g'] = ('call', _gen_raising(lambda: KeyError('boom')))
            if kind == 'wsdl':
                env = drv.environ('GET', '/app', 'wsdl', b'', content_type=None, content_length=None)
            else:
                body = document(fam, {'ok': 'success', 'gen-fault': 'gen', 'gen-crash': 'gen'}.get(kind, kind), 2)
                env = drv.environ('POST', '/', '', body, content_type='application/json' if fam == 'json' else 'text/xml; charset=utf-8')
            wsgiref.util.setup_testing_defaults(env)
            if kind == 'wsdl':
                env['QUERY_STRING'] = 'wsdl'

            def V(kind_, detail, what):
                res['violations'].append({'sig': 'C13|history-%s|%s|%s|%s' % (kind_, fam + (',chunked' if chunked else ',unchunked'), kind + ('-after-' + '+'.join(sorted(set(hist[:step]))) if step else '-first'), detail),
                                          'what': '[%s chunked=%s] history %s on one WsgiApplication, request #%d (%s): %s; trace %s' % (fam, chunked, hist, step + 1, kind, what, trace),
                                          'case': {'shard': shard, 'only': hist}, 'count': 1})
            try:
                o = drv.call_wsgi(wsgiref.validate.validator(wa), env, trace=trace)
            except Exception as e:
                V('validator', type(e).__name__, 'wsgiref.validate / driver raised %r' % (e,))
                ok = False
                break
            if o.escaped is not None:
                V('escape', '%s@%s' % (type(o.escaped).__name__, o.escaped_where), 'exception out of the WSGI callable / validator: %r' % (o.escaped,))
                ok = False
                break
            names = [t[0] for t in trace]
            if o.start_calls != 1 or ('CHUNK' in names and names.index('START') > names.index('CHUNK')):
                V('start-response', str(o.start_calls), 'start_response called %d times / after a chunk' % o.start_calls)
                ok = False
            if names.count('CTXCLOSED') != names.count('CTXCREATED') or names.count('CTXCLOSED') > 1 or (kind != 'malformed' and kind != 'unknown' and names.count('CTXCLOSED') != 1):
                V('context-closed', '%d-created-%d-closed' % (names.count('CTXCREATED'), names.count('CTXCLOSED')), 'context created %d times, closed %d times' % (
                    names.count('CTXCREATED'), names.count('CTXCLOSED')))
                ok = False
            elif 'CTXCLOSED' in names and 'CHUNK' in names and names.index('CTXCLOSED') < max(i for i, n in enumerate(names) if n == 'CHUNK'):
                V('context-closed', 'before-last-chunk', 'context closed before the body was handed over')
                ok = False
            hd = dict((k.lower(), v) for k, v in (o.headers or []))
            if 'content-length' in hd and o.out is not None and int(hd['content-length']) != len(o.out):
                V('content-length', '', 'Content-Length %s, body has %d bytes' % (hd['content-length'], len(o.out)))
                ok = False
            entered = len(b.rec.calls)
            if entered != (1 if kind in ('ok', 'gen', 'fault', 'gen-fault', 'gen-crash') else 0):
                V('function-ran', '%s|%d' % (kind, entered), 'user function ran %d times' % entered)
                ok = False
            want_status = {'wsdl': '200', 'ok': '200', 'gen': '200'}.get(kind)
            if want_status and not (o.status or '').startswith(want_status):
                V('status', (o.status or '')[:3], 'status %r' % (o.status,))
                ok = False
            if kind in ('gen-fault', 'gen-crash', 'fault') and (o.status or '').startswith('2'):
                V('status', 'fault-sent-as-2xx', 'the method raised before producing anything, the status is %r' % (o.status,))
                ok = False
            if not ok:
                break
        res['cov']['request_histories'] = res['cov'].get('request_histories', 0) + 1
        res['outcomes']['conforms' if ok else 'differs'] = res['outcomes'].get('conforms' if ok else 'differs', 0) + 1
        if ok:
            res['nontrivial'] += 1


def finish(tier, agg):
    m = model(tier)
    return {'states': m['states'], 'transitions': m['transitions'], 'traces_validated_against_impl': agg.cov.get('replays', 0),
            'model_behaviours': len(m['behaviours']), 'checker_cmd': m['cmd'] + '  (CONSTANTS %s)' % constants(tier),
            'invariants': ['ReadBound', 'StartOnceBeforeBody', 'NoFuncWhenTooLong', 'NoFuncWhenOver', 'ClosedOnce', 'ClosedAfterBody'],
            'trusted_base': ['TLC 1.8.0', 'the replay driver vf/props/c13.py', 'wsgiref.validate']}


def program():
    ms = [{'n': 'm', 'args': [['a', I]], 'ret': I},
          {'n': 'g', 'args': [['a', I]], 'ret': ['it', I, {}]}]
    return {'tns': TNS, 'classes': [], 'services': [{'n': 'S', 'methods': ms}]}


def document(fam, kind, B):
    """request body of exactly B*UNIT bytes whose closing part lies in the last unit (so that any truncation at a unit
    boundary is malformed); kind selects method / argument"""
    if B == 0:
        return b''
    n = B * UNIT
    meth = 'g' if kind == 'gen' else ('nosuch' if kind == 'unknown' else 'm')
    arg = 'abc' if kind == 'invalid' else '5'
    if fam == 'json':
        head = ('{"%s": {"a": %s' % (meth, json.dumps(arg) if kind == 'invalid' else arg)).encode()
        tail = b'}}'
    else:
        head = ('<e:Envelope xmlns:e="http://schemas.xmlsoap.org/soap/envelope/"><e:Body><t:%s xmlns:t="%s"><t:a>%s</t:a>' % (meth, TNS, arg)).encode()
        tail = ('</t:%s></e:Body></e:Envelope>' % meth).encode()
    if kind == 'malformed':
        head = b'\x00\x01 this is not a document <<<{{{ '
        tail = b' }}}>>>'
    unit = UNIT
    assert len(head) + len(tail) <= n or B == 1, (len(head), len(tail), n)
    if len(head) + len(tail) > n:
        raise ValueError('unit too small')
    pad = b' ' * (n - len(head) - len(tail))
    doc = head + pad + tail
    assert len(doc) == n
    return doc


def unit_for(fam):
    return 192 if fam == 'soap11' else 64


def run_behaviour(beh, fam, chunked, res, casedoc):
    from spyne.server.wsgi import WsgiApplication
    from spyne.model.fault import Fault
    global UNIT
    UNIT = unit_for(fam)
    u = UNIT
    prog = program()
    if fam == 'json':
        h = harness.DictHarness(prog, 'json', 'soft')
    else:
        h = harness.XmlHarness(prog, 'soap11', 'soft')
    b = h.b
    kind = beh['kind']
    L = beh['L'] * u
    K = beh['K'] * u
    wa = WsgiApplication(h.app, chunked=chunked, max_content_length=L, block_length=max(K, 1))
    trace = []
    h.app.event_manager.add_listener('method_context_closed', lambda ctx: trace.append(('CTXCLOSED',)))
    b.rec.reset()
    # the user fault's code varies with the environment: Client, Server and a code outside both families
    fcode = ('Client.Custom', 'Server.Custom', 'Other.Custom', 'VersionMismatch')[(beh['B'] + beh['L'] + beh['K'] + (1 if beh['short'] else 0)) % 4]
    b.rec.script['m'] = ('raise', lambda: Fault(fcode, 'nope')) if kind == 'fault' else ('ret', 6)
    b.rec.script['g'] = ('gen', [1, 2])
    body = document(fam, kind, beh['B'])
    stream = drv.CountingInput(body, short=beh['short'])
    if kind == 'wsdl':
        env = drv.environ('GET', '/app', 'wsdl', b'', content_type=None, content_length=None, stream=stream)
    else:
        cl = None if beh['CL'] == 99 else ('' if beh['CL'] == 98 else str(beh['CL'] * u))
        env = drv.environ('POST', '/', '', body, content_type='application/json' if fam == 'json' else 'text/xml; charset=utf-8',
                          content_length=cl, stream=stream)
    wsgiref.util.setup_testing_defaults(env)
    env['wsgi.input'] = stream
    problems = []
    try:
        app = wsgiref.validate.validator(wa)
        o = drv.call_wsgi(app, env, abort_after=None if beh['abort'] == 9 else beh['abort'], trace=trace)
    except Exception as e:
        o = None
        problems.append(('harness', repr(e)))
    return h, o, trace, stream, problems


def abstract(trace):
    out = []
    for t in trace:
        if t[0] == 'START':
            st = t[1][:3] if isinstance(t[1], str) else ''
            out.append('START2xx' if st.startswith('2') else 'START413' if st == '413' else 'STARTerr' if st[:1] in ('4', '5') else 'STARTinvalid')
        elif t[0] == 'CHUNK':
            if not out or out[-1] != 'CHUNK':
                out.append('CHUNK')
        elif t[0] in ('ITERCLOSE', 'CTXCLOSED'):
            out.append(t[0])
    return out


def collapse(tr):
    out = []
    for e in tr:
        if e == 'CHUNK' and out and out[-1] == 'CHUNK':
            continue
        out.append(e)
    return out


def run_shard(shard, only=None):
    res = {'evaluations': 0, 'nontrivial': 0, 'outcomes': {}, 'violations': [], 'samples': [], 'cov': {'replays': 0}, 'notes': {}}
    if shard.get('kind') == 'lengths':
        run_lengths(shard, res, only)
        from vf.props.c01 import compress
        return compress(res)
    if shard.get('kind') == 'histories':
        run_histories(shard, res, only)
        from vf.props.c01 import compress
        return compress(res)
    if shard.get('kind') == 'bodies':
        run_bodies(shard, res, only)
        from vf.props.c01 import compress
        return compress(res)
    fam, chunked = shard['fam'], shard['chunked']
    for bi, beh in enumerate(shard['behaviours']):
        if only is not None and only != bi:
            continue
        casedoc = {'shard': dict(shard, behaviours=[beh]), 'only': 0}
        res['evaluations'] += 1
        envdesc = 'kind=%s B=%s L=%s CL=%s K=%s short=%s abort=%s' % (beh['kind'], beh['B'], beh['L'], {99: 'absent', 98: 'empty'}.get(beh['CL'], beh['CL']), beh['K'], beh['short'], beh['abort'])

        def V(kind_, detail, what):
            res['violations'].append({'sig': 'C13|%s|%s|%s' % (kind_, fam + (',chunked' if chunked else ',unchunked'), detail),
                                      'what': '[%s chunked=%s %s] %s' % (fam, chunked, envdesc, what), 'case': casedoc, 'count': 1})
        h, o, trace, stream, problems = run_behaviour(beh, fam, chunked, res, casedoc)
        res['cov']['replays'] += 1
        if o is None:
            V('validator', problems[0][1][:60], 'wsgiref.validate / driver raised: %s' % problems[0][1])
            continue
        if o.escaped is not None:
            kindlabel = 'wsgiref-validate' if 'wsgiref' in (type(o.escaped).__module__ or '') or isinstance(o.escaped, AssertionError) else 'escape'
            V(kindlabel, '%s@%s|kind=%s' % (type(o.escaped).__name__, o.escaped_where, beh['kind']), 'exception out of the WSGI callable / validator: %r; concrete trace %s' % (o.escaped, trace))
            continue
        # ITERCLOSE (the server calling close()) is the driver's own action: the property orders context closing
        # against the body only, so the abstraction drops it; both orders of ITERCLOSE / CTXCLOSED are fine
        got = [e for e in abstract(trace) if e != 'ITERCLOSE']
        want = [e for e in collapse(beh['tr']) if e != 'ITERCLOSE']
        ok = True
        if fam == 'soap11' and 'START413' in want:
            # SOAP answers every fault with HTTP 500 (C09); the request-too-long verdict is in the fault code
            want = ['STARTerr' if e == 'START413' else e for e in want]
            if b'RequestTooLong' not in b''.join(c for c in (o.chunks or []) if isinstance(c, bytes)) and beh['abort'] != 0:
                V('too-long-fault-missing', '', 'declared length above the limit but the fault is not Client.RequestTooLong: %r' % (o.out,))
                ok = False
        if o.start_calls != 1:
            V('start-response-count', str(o.start_calls), 'start_response called %d times' % o.start_calls)
            ok = False
        if got != want:
            first = next((i for i, (x, y) in enumerate(zip(got + ['<end>'], want + ['<end>'])) if x != y), None)
            V('trace-differs', 'kind=%s|expected=%s|got=%s' % (beh['kind'], (want + ['<end>'])[first], (got + ['<end>'])[first]),
              'abstract trace %s, the model prescribes %s (concrete %s)' % (got, want, trace))
            ok = False
        units_read = stream.given / float(UNIT)
        if kind_reads(beh) and stream.given != beh['rd'] * UNIT:
            V('bytes-read', 'kind=%s|%s' % (beh['kind'], 'more' if stream.given > beh['rd'] * UNIT else 'fewer'), 'read %d bytes (%.2f units) from wsgi.input, the model reads %d units' % (stream.given, units_read, beh['rd']))
            ok = False
        if stream.given > beh['L'] * UNIT:
            V('read-beyond-limit', '', 'read %d bytes with max_content_length=%d' % (stream.given, beh['L'] * UNIT))
            ok = False
        entered = len(h.b.rec.calls)
        if bool(entered) != beh['func'] or entered > 1:
            V('function-ran', 'kind=%s|ran=%d|model=%s' % (beh['kind'], entered, beh['func']), 'user function ran %d times, the model says %s' % (entered, beh['func']))
            ok = False
        # what the abstraction hides
        if not isinstance(o.status, str) or len(o.status) < 5 or not o.status[:3].isdigit() or o.status[3] != ' ':
            V('status-line', '', 'status is %r' % (o.status,))
            ok = False
        for kv in o.headers or []:
            if not (isinstance(kv, tuple) and len(kv) == 2 and isinstance(kv[0], str) and isinstance(kv[1], str)):
                V('header-types', '', 'header %r is not a (str, str) pair' % (kv,))
                ok = False
        for c in o.chunks or []:
            if not isinstance(c, bytes):
                V('chunk-type', type(c).__name__, 'body chunk of type %s' % type(c).__name__)
                ok = False
                break
        hd = dict((k.lower(), v) for k, v in (o.headers or []))
        if 'content-length' in hd and beh['abort'] == 9 and o.out is not None and int(hd['content-length']) != len(o.out):
            V('content-length', '', 'Content-Length %s, body has %d bytes' % (hd['content-length'], len(o.out)))
            ok = False
        res['outcomes']['conforms' if ok else 'differs'] = res['outcomes'].get('conforms' if ok else 'differs', 0) + 1
        if ok:
            res['nontrivial'] += 1
        if not res['samples']:
            res['samples'].append({'behaviour': beh, 'family': fam, 'chunked': chunked, 'concrete_trace': [list(t) for t in trace][:12], 'bytes_read': stream.given})
    from vf.props.c01 import compress
    return compress(res)


def kind_reads(beh):
    return beh['kind'] != 'wsdl'


def replay(case):
    r = run_shard(case['shard'], only=case.get('only'))
    return r['violations']
