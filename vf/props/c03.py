"""C03 - HttpRpc flat key/value fidelity.

Bounded-exhaustive enumeration (E1) through a real WSGI GET: object/array shapes up to depth 3 x values x EVERY
permutation of the query pairs (<= 6 pairs; beyond that sorted, reversed, all rotations and all adjacent
transpositions) x index spellings {contiguous, sparse increasing, omitted for single members} x array sizes
{1, 2, 3, 11} x hier_delim x strict_arrays x validator x percent-encoding variants.  Oracles: the function
receives exactly the values (every array in index order); sparse spellings under strict_arrays end in a client
fault; object_to_simple_dict o simple_dict_to_object is the identity; a single primitive return value is the
body, out-header fields are HTTP headers."""
import decimal
import itertools
import json

from vf import tagged, harness, spec, drv, universe, values
from vf.ref import httpcodec, validity, xsdcodec, xsdlex
from vf.tagged import Obj

ID = 'C03'
LEVEL = 'exploration'
RULE = ('every (shape, value, pair order, index spelling, delimiter, strict_arrays, validator, encoding) case through a WSGI GET; '
        'non-trivial when the function was entered with at least one non-None member; distinct by (shape, configuration, query string)')
ASSUMPTIONS = ['form bodies (POST) need werkzeug, which is not installed: query strings only',
               'vf.ref.httpcodec implements the documented notation (a.b.c, a[0].b, repeated keys, percent-encoding)']
FLOOR = {'quick': 2000, 'thorough': 20000}
I = ['p', 'Integer', {}]
U = ['p', 'Unicode', {}]
TNS = universe.TNS


def sig_programs():
    """fixed signature shapes (name, program, [(label, args)])"""
    out = []
    Q = {'n': 'Q', 'fields': [['q', I], ['w', ['p', 'Unicode', {'max_occurs': 'unbounded'}]]]}
    P = {'n': 'P', 'fields': [['x', I], ['s', U], ['l', ['a', I, {}]], ['u', ['p', 'Date', {'max_occurs': 'unbounded'}]]]}
    m1 = {'n': 'm', 'args': [['a', I], ['b', U], ['c', ['p', 'Integer', {'max_occurs': 'unbounded'}]]], 'ret': U}
    out.append(('prims', {'tns': TNS, 'classes': [], 'services': [{'n': 'S', 'methods': [m1]}]},
                [('plain', [5, 'x y&=;+%', [1, 2, 3]]), ('unicode', [-(10 ** 20), 'é\U0001F600', [7]]), ('some-none', [None, 'q', None])]))
    m2 = {'n': 'm', 'args': [['a', ['c', 'P', {}]], ['z', I]], 'ret': I}
    import datetime as _dt
    out.append(('obj', {'tns': TNS, 'classes': [P], 'services': [{'n': 'S', 'methods': [m2]}]},
                [('full', [Obj('P', x=5, s='q r', l=[1, 2], u=[_dt.date(2020, 1, 2), _dt.date(1, 1, 1)]), 7]),
                 ('sparse-fields', [Obj('P', x=None, s='only', l=None, u=None), None])]))
    P3 = {'n': 'P', 'fields': [['qq', ['c', 'Q', {}]], ['qa', ['a', ['c', 'Q', {}], {}]], ['qs', ['c', 'Q', {'max_occurs': 'unbounded'}]]]}
    m3 = {'n': 'm', 'args': [['a', ['c', 'P', {}]]], 'ret': I}
    out.append(('objarr', {'tns': TNS, 'classes': [Q, P3], 'services': [{'n': 'S', 'methods': [m3]}]},
                [('two', [Obj('P', qq=Obj('Q', q=1, w=['a', 'b']), qa=[Obj('Q', q=2, w=None), Obj('Q', q=3, w=['c'])], qs=[Obj('Q', q=4, w=None)])]),
                 ('three', [Obj('P', qq=None, qa=[Obj('Q', q=i, w=['w%d' % i]) for i in range(3)], qs=None)]),
                 ('eleven', [Obj('P', qq=None, qa=[Obj('Q', q=i, w=None) for i in range(11)], qs=None)]),
                 ('eleven-seq', [Obj('P', qq=None, qa=None, qs=[Obj('Q', q=100 + i, w=None) for i in range(11)])]),
                 ('empty-array', [Obj('P', qq=Obj('Q', q=1, w=None), qa=[], qs=None)])]))
    R = {'n': 'R', 'fields': [['v', I]]}
    Q4 = {'n': 'Q', 'fields': [['q', I], ['ra', ['a', ['c', 'R', {}], {}]]]}
    P4 = {'n': 'P', 'fields': [['qa', ['a', ['c', 'Q', {}], {}]]]}
    m4 = {'n': 'm', 'args': [['a', ['c', 'P', {}]]], 'ret': I}
    out.append(('nested', {'tns': TNS, 'classes': [R, Q4, P4], 'services': [{'n': 'S', 'methods': [m4]}]},
                [('2x2', [Obj('P', qa=[Obj('Q', q=1, ra=[Obj('R', v=10), Obj('R', v=11)]), Obj('Q', q=2, ra=[Obj('R', v=20), Obj('R', v=21)])])]),
                 ('ragged', [Obj('P', qa=[Obj('Q', q=1, ra=[Obj('R', v=10)]), Obj('Q', q=2, ra=[Obj('R', v=20), Obj('R', v=21), Obj('R', v=22)]),
                                          Obj('Q', q=3, ra=None)])])]))
    # nested objects and object-array elements whose class inherits members from a parent class
    B0 = {'n': 'B0', 'fields': [['b', I], ['bs', U]]}
    QI = {'n': 'Q', 'base': 'B0', 'fields': [['q', I]]}
    PI = {'n': 'P', 'base': 'B0', 'fields': [['qq', ['c', 'Q', {}]], ['qa', ['a', ['c', 'Q', {}], {}]], ['qs', ['c', 'Q', {'max_occurs': 'unbounded'}]]]}
    mi = {'n': 'm', 'args': [['a', ['c', 'P', {}]], ['o', ['c', 'Q', {}]]], 'ret': I}
    out.append(('inherited', {'tns': TNS, 'classes': [B0, QI, PI], 'services': [{'n': 'S', 'methods': [mi]}]},
                [('all', [Obj('P', b=1, bs='top', qq=Obj('Q', b=2, bs='in', q=3), qa=[Obj('Q', b=4, bs='e0', q=5), Obj('Q', b=6, bs=None, q=None)],
                              qs=[Obj('Q', b=7, bs=None, q=8)]), Obj('Q', b=9, bs='arg', q=10)]),
                 ('inherited-only', [Obj('P', b=None, bs=None, qq=Obj('Q', b=2, bs=None, q=None), qa=[Obj('Q', b=4, bs=None, q=None)], qs=None), Obj('Q', b=9, bs=None, q=None)])]))
    # member and parameter names that contain the delimiter character ('_' is legal in identifiers and a documented delimiter)
    QU = {'n': 'Q', 'fields': [['unit_price', I], ['sku_', U]]}
    PU = {'n': 'P', 'fields': [['line_items', ['a', ['c', 'Q', {}], {}]], ['home_addr', ['c', 'Q', {}]], ['n_', I]]}
    mu = {'n': 'm', 'args': [['the_order', ['c', 'P', {}]], ['z_z', I]], 'ret': I}
    out.append(('underscored', {'tns': TNS, 'classes': [QU, PU], 'services': [{'n': 'S', 'methods': [mu]}]},
                [('two-items', [Obj('P', line_items=[Obj('Q', unit_price=1, sku_='a'), Obj('Q', unit_price=2, sku_='b')], home_addr=Obj('Q', unit_price=3, sku_='h'), n_=4), 5]),
                 ('three-items', [Obj('P', line_items=[Obj('Q', unit_price=i, sku_=None) for i in range(3)], home_addr=None, n_=None), None])]))
    # two objects of the same class reached through different members / parameters, both spelling the same members
    K = {'n': 'K', 'fields': [['k', U]]}
    T = {'n': 'T', 'fields': [['i', I], ['tags', ['a', ['c', 'K', {}], {}]], ['ks', ['c', 'K', {'max_occurs': 'unbounded'}]]]}
    PT = {'n': 'P', 'fields': [['x', ['c', 'T', {}]], ['y', ['c', 'T', {}]]]}
    mt = {'n': 'm', 'args': [['start', ['c', 'T', {}]], ['end', ['c', 'T', {}]], ['p', ['c', 'P', {}]]], 'ret': I}
    out.append(('twins', {'tns': TNS, 'classes': [K, T, PT], 'services': [{'n': 'S', 'methods': [mt]}]},
                [('scalars', [Obj('T', i=1, tags=None, ks=None), Obj('T', i=2, tags=None, ks=None), Obj('P', x=Obj('T', i=3, tags=None, ks=None), y=Obj('T', i=4, tags=None, ks=None))]),
                 ('arrays', [Obj('T', i=None, tags=[Obj('K', k='a')], ks=None), Obj('T', i=None, tags=[Obj('K', k='b'), Obj('K', k='c')], ks=None), None]),
                 ('nested-arrays', [None, None, Obj('P', x=Obj('T', i=None, tags=[Obj('K', k='a')], ks=[Obj('K', k='s')]), y=Obj('T', i=None, tags=[Obj('K', k='b')], ks=[Obj('K', k='t')]))])]))
    # heterogeneous object arrays: every pattern of which members each of 3 elements spells (an element spelling a
    # member its predecessors left out changes the sorted key order - the strict_arrays index bookkeeping depends on it)
    QH = {'n': 'Q', 'fields': [['q', I], ['s', U]]}
    PH = {'n': 'P', 'fields': [['qa', ['a', ['c', 'Q', {}], {}]]]}
    mh = {'n': 'm', 'args': [['a', ['c', 'P', {}]]], 'ret': I}
    hc = []
    for n in (3, 4):
        for pat in itertools.product(('q', 's', 'qs'), repeat=n):
            if n == 4 and ('qs' in pat or len(set(pat)) == 1):
                continue   # length 4: only the patterns with one member per element
            els = [Obj('Q', q=(10 + i if 'q' in w else None), s=('v%d' % i if 's' in w else None)) for i, w in enumerate(pat)]
            hc.append(('-'.join(pat), [Obj('P', qa=els)]))
    out.append(('hetero', {'tns': TNS, 'classes': [QH, PH], 'services': [{'n': 'S', 'methods': [mh]}]}, hc))
    return out


DELIMS = ['.', '_', '__']


def configs(tier):
    out = []
    for delim in DELIMS:
        for strict in (False, True):
            for val in (None, 'soft'):
                out.append(dict(hier_delim=delim, strict_arrays=strict, validator=val))
    return out


def bounds(tier):
    return {'signature_shapes': [s[0] for s in sig_programs()], 'levelB_max_fields': 2 if tier == 'quick' else 3,
            'permutations': 'all for <= 6 pairs (<= 5 in the quick tier), else sorted/reversed/rotations/adjacent transpositions',
            'index_spellings': ['contiguous', 'sparse', 'omitted-single'], 'array_sizes': [0, 1, 2, 3, 11],
            'configurations': len(configs(tier)), 'encodings': ['%XX', '+ for space', '; separator', 'every byte encoded']}


def shards(tier):
    out = []
    for i, (name, prog, cases) in enumerate(sig_programs()):
        for j in range(len(cases)):
            out.append({'kind': 'sig', 'i': i, 'j': j, 'name': name, 'tier': tier})
    n = 2 if tier == 'quick' else 3
    shp = list(universe.shapes(n))
    per = 8 if tier == 'quick' else 10
    for k in range(0, len(shp), per):
        out.append({'kind': 'B', 'n': n, 'lo': k, 'hi': min(len(shp), k + per), 'tier': tier})
    out.append({'kind': 'ret', 'tier': tier})
    out.append({'kind': 'flat', 'tier': tier})
    out.append({'kind': 'methods', 'tier': tier})
    out.append({'kind': 'shared', 'tier': tier})
    return out


def orders(pairs, tier):
    n = len(pairs)
    full = 6 if tier == 'thorough' else 5
    if n <= full:
        seen = set()
        for p in itertools.permutations(range(n)):
            o = tuple(pairs[i] for i in p)
            if o not in seen:
                seen.add(o)
                yield 'perm', list(o)
        return
    yield 'as-is', list(pairs)
    yield 'sorted', sorted(pairs)
    yield 'reversed', list(reversed(pairs))
    for r in range(1, n):
        yield 'rot', pairs[r:] + pairs[:r]
    for i in range(n - 1):
        q = list(pairs)
        q[i], q[i + 1] = q[i + 1], q[i]
        yield 'swap', q


SPARSE = [3, 4, 7, 10, 11, 12, 15, 21, 22, 30, 99, 100, 101, 250]


def spellings(has_obj_arrays):
    yield 'contiguous', None, False
    if has_obj_arrays:
        yield 'sparse', (lambda path, i, n: SPARSE[i] if i < len(SPARSE) else 300 + i), False
        yield 'omit-single', None, True


def has_object_arrays(v):
    if isinstance(v, Obj):
        return any(has_object_arrays(x) for x in v.f.values())
    if isinstance(v, list):
        return any(isinstance(x, Obj) for x in v) or any(has_object_arrays(x) for x in v)
    return False


def single_member_arrays_only(v):
    return True


def run_get(h, m, args, query, expect_fault, ctx, res, site, mname='m'):
    def V(kind, detail, what):
        res['violations'].append({'sig': 'C03|%s|%s|%s%s' % (kind, h.label, site, ('|' + detail) if detail else ''),
                                  'what': '[%s validator=%s] %s; query=%s' % (h.label, h.validator, what, query[:500]),
                                  'case': ctx, 'count': 1})
    o = h.get(mname, query, None)
    calls = h.captured(mname)
    if o.escaped is not None:
        V('escape', '%s@%s' % (type(o.escaped).__name__, o.escaped_where), 'exception escaped the WSGI callable: %r' % (o.escaped,))
        return 'escape'
    status = (o.status or '')[:3]
    if expect_fault:
        if status.startswith('4') and not calls:
            return 'fault-as-expected'
        V('sparse-accepted-under-strict', status, 'sparse index spelling under strict_arrays answered %s, function ran %d times' % (o.status, len(calls)))
        return 'sparse-accepted'
    if status != '200':
        V('refused', status + ('|entered' if calls else ''), 'valid request answered %s: %r' % (o.status, (o.out or b'')[:200]))
        return 'refused'
    if len(calls) != 1:
        V('invocations', str(len(calls)), 'function entered %d times' % len(calls))
        return 'invocations'
    if not tagged.equal(args, calls[0][1]):
        V('args', '', 'sent %r, function received %r' % (args, calls[0][1]))
        return 'args'
    return 'ok'


def methods_program():
    """several methods whose parameters and members have the same names with different types: what a flat key means is
    decided by the method that is called, not by the key"""
    P = {'n': 'P', 'fields': [['x', I], ['tags', ['a', I, {}]]]}
    Q = {'n': 'Q', 'fields': [['x', U], ['tags', ['a', U, {}]]]}
    ms = [{'n': 'user', 'args': [['id', I], ['p', ['c', 'P', {}]]], 'ret': I},
          {'n': 'order', 'args': [['id', U], ['p', ['c', 'Q', {}]]], 'ret': I},
          {'n': 'item', 'args': [['id', ['p', 'Decimal', {}]], ['p', ['a', ['c', 'P', {}], {}]]], 'ret': I}]
    vals = {'user': [7, Obj('P', x=8, tags=[9, 10])], 'order': ['007', Obj('Q', x='008', tags=['09', '1e1'])],
            'item': [decimal.Decimal('7.50'), [Obj('P', x=1, tags=[2]), Obj('P', x=3, tags=None)]]}
    return {'tns': TNS, 'classes': [P, Q], 'services': [{'n': 'S', 'methods': ms}]}, vals


def run_methods(shard, res, only=None):
    program, vals = methods_program()
    names = sorted(vals)
    depth = 3
    for cfg in configs(shard['tier']):
        for hist in itertools.product(names, repeat=depth):
            key = [cfg, list(hist)]
            if only is not None and only != key:
                continue
            h = harness.HttpHarness(program, **cfg)
            res['evaluations'] += 1
            good = True
            for step, mname in enumerate(hist):
                m = h.b.methods[mname]
                pairs = []
                for (an, at), v in zip(m['args'], vals[mname]):
                    pairs += httpcodec.flatten(h.b, an, at, v, delim=cfg['hier_delim'])
                ctx = {'methods': True, 'shard': shard, 'only': key}
                oc = run_get(h, m, vals[mname], httpcodec.query_string(pairs), False, ctx, res,
                             'methods|%s-after-%s' % (mname, '+'.join(sorted(set(hist[:step]))) or 'nothing'), mname=mname)
                if oc != 'ok':
                    good = False
                    break
            res['outcomes']['method-history'] = res['outcomes'].get('method-history', 0) + 1
            if good:
                res['nontrivial'] += 1
    res['cov']['programs'] += 1


def run_shared(shard, res, only=None):
    """applications with different HttpRpc configurations (delimiter, strict_arrays, validator) over ONE build of the model
    classes, called one after the other in every order of two: what one protocol object worked out for a class must not
    be used by another"""
    name, program, cases = [x for x in sig_programs() if x[0] == 'objarr'][0]
    m = program['services'][0]['methods'][0]
    label, args = cases[0]
    cfgs = configs(shard['tier'])
    for c1, c2 in itertools.permutations(range(len(cfgs)), 2):
        key = [c1, c2]
        if only is not None and only != key:
            continue
        b = spec.build(program)
        hs = [harness.HttpHarness(program, built=b, **cfgs[c1]), harness.HttpHarness(program, built=b, **cfgs[c2])]
        res['evaluations'] += 1
        good = True
        for step, h in enumerate((hs[0], hs[1], hs[0])):
            pairs = []
            for (an, at), v in zip(m['args'], args):
                pairs += httpcodec.flatten(h.b, an, at, v, delim=h.cfg['hier_delim'])
            ctx = {'shared': True, 'shard': shard, 'only': key}
            oc = run_get(h, m, args, httpcodec.query_string(pairs), False, ctx, res,
                         'shared-classes|%s' % ('first-application' if step == 0 else 'second-application' if step == 1 else 'first-application-again'))
            if oc != 'ok':
                good = False
                break
        if good:
            res['nontrivial'] += 1
        res['outcomes']['shared-classes'] = res['outcomes'].get('shared-classes', 0) + 1
    res['cov']['programs'] += 1


def do_program(program, arg_cases, res, tier, site, sample_key, shard=None):
    m = program['services'][0]['methods'][0]
    hs = []
    for cfg in configs(tier):
        hs.append(harness.HttpHarness(program, **cfg))
    seen = set()
    for label, args in arg_cases:
        hoa = any(has_object_arrays(a) for a in args)
        for h in hs:
            delim = h.cfg['hier_delim']
            for sp_label, index_of, omit in spellings(hoa):
                try:
                    pairs = []
                    for (an, at), v in zip(m['args'], args):
                        pairs += httpcodec.flatten(h.b, an, at, v, delim=delim, index_of=index_of, omit_single_index=omit)
                except httpcodec.NotDenotable:
                    res['outcomes']['not-denotable'] = res['outcomes'].get('not-denotable', 0) + 1
                    continue
                if omit and not all_single(args):
                    continue
                # reference self-check: the reference unflattener reads the pairs back to the values
                back = httpcodec.unflatten(h.b, m['args'], pairs, delim=delim)
                assert tagged.equal(args, back), ('reference codec self-check failed', args, back, pairs)
                expect_fault = sp_label == 'sparse' and h.cfg['strict_arrays']
                for o_label, order in orders(pairs, tier):
                    encs = [('pct', {})]
                    if o_label in ('as-is', 'sorted') or (o_label == 'perm' and order == pairs):
                        encs += [('plus', {'plus_for_space': True}), ('semicolon', {'sep': ';'}), ('all-encoded', {'encode_all': True})]
                    for e_label, ekw in encs:
                        query = httpcodec.query_string(order, **ekw)
                        # members of a primitive array are spelled as a repeated key: their order IS the pair order,
                        # so the expectation is the reference reading of this very pair sequence
                        expected = httpcodec.unflatten(h.b, m['args'], order, delim=delim)
                        ctx = {'program': program, 'args': tagged.enc(expected), 'cfg': h.cfg, 'query': query, 'expect_fault': expect_fault, 'shard': shard,
                               'site': '%s|%s|%s|%s' % (site, label, sp_label, e_label if e_label != 'pct' else o_label)}
                        oc = run_get(h, m, expected, query, expect_fault, ctx, res, ctx['site'])
                        res['evaluations'] += 1
                        res['outcomes'][oc] = res['outcomes'].get(oc, 0) + 1
                        if oc in ('ok', 'fault-as-expected'):
                            k = (h.label, h.validator, query)
                            if k not in seen:
                                seen.add(k)
                                res['nontrivial'] += 1
                        if sample_key and not res['samples']:
                            res['samples'].append({'shape': sample_key, 'cfg': h.cfg, 'query': query, 'args': tagged.enc(args)})


def all_single(v):
    """every array of objects in v has exactly one member (index may be omitted)"""
    if isinstance(v, Obj):
        return all(all_single(x) for x in v.f.values())
    if isinstance(v, list):
        if any(isinstance(x, Obj) for x in v):
            return len(v) == 1 and all_single(v[0])
        return all(all_single(x) for x in v)
    return True


def header_datetimes():
    """instants whose UTC calendar day differs from the local one (and some that do not), naive ones included"""
    import datetime as _dt
    out = []
    for off in (0, 330, -210, 840, -840, 60):
        for (h, m) in ((0, 30), (23, 45), (12, 0)):
            out.append(_dt.datetime(2013, 1, 1, h, m, 7, tzinfo=tagged.tz(off)))
    out.append(_dt.datetime(2020, 2, 29, 23, 59, 59))
    out.append(_dt.datetime(1999, 12, 31, 0, 0, 0, tzinfo=tagged.tz(-60)))
    return out


def ret_cases(tier):
    """single primitive return values: (atom id, type, [(label, value)])"""
    out = []
    for aid, at in universe.atoms(tier):
        if at[0] not in ('p',):
            continue
        vals = universe.atom_values(at, tier, 8 if tier == 'quick' else None)
        out.append((aid, at, vals))
    return out


def run_shard(shard):
    res = {'evaluations': 0, 'nontrivial': 0, 'outcomes': {}, 'violations': [], 'samples': [], 'cov': {'programs': 0}, 'notes': {}}
    tier = shard['tier']
    if shard['kind'] == 'sig':
        name, program, cases = sig_programs()[shard['i']]
        res['cov']['programs'] += 1
        do_program(program, [cases[shard['j']]], res, tier, name, name, shard)
    elif shard['kind'] == 'B':
        shp = list(universe.shapes(shard['n']))[shard['lo']:shard['hi']]
        for shape in shp:
            program, root = universe.shape_program(shape, 'wrapped')
            res['cov']['programs'] += 1
            vals = universe.shape_assignments(program, root, 12 if tier == 'quick' else 60)
            from vf.props.c01 import shape_sig
            do_program(program, [('v%d' % i, [v, 7]) for i, v in enumerate(vals)], res, tier, 'B', shape_sig(shape), shard)
    elif shard['kind'] == 'methods':
        run_methods(shard, res)
    elif shard['kind'] == 'shared':
        run_shared(shard, res)
    elif shard['kind'] == 'ret':
        for aid, at, vals in ret_cases(tier):
            program = {'tns': TNS, 'classes': [{'n': 'H', 'fields': [['hx', I], ['hs', U], ['hd', ['p', 'DateTime', {}]], ['hb', ['p', 'Boolean', {}]]]}],
                       'services': [{'n': 'S', 'methods': [{'n': 'm', 'args': [['z', I]], 'ret': at, 'out_header': ['H']}]}]}
            res['cov']['programs'] += 1
            h = harness.HttpHarness(program)
            hds = header_datetimes()
            for vi, (label, v) in enumerate(vals):
                ctx = {'ret': True, 'atom': aid, 'value': tagged.enc(v), 'label': label}
                hd = hds[vi % len(hds)]      # out-header members of other types ride along: a DateTime is sent as an HTTP-date
                o = h.get('m', 'z=1', v, out_header={'H': Obj('H', hx=12, hs='hv', hd=hd, hb=True)})
                res['evaluations'] += 1

                def V(kind, what):
                    res['violations'].append({'sig': 'C03|return-%s|%s' % (kind, aid),
                                              'what': 'single primitive return %s %r: %s' % (aid, v, what), 'case': ctx, 'count': 1})
                if o.escaped is not None:
                    V('escape:%s@%s' % (type(o.escaped).__name__, o.escaped_where), 'escaped %r' % (o.escaped,))
                    continue
                if (o.status or '')[:3] != '200':
                    V('status', 'status %s body %r' % (o.status, (o.out or b'')[:100]))
                    continue
                body = o.out
                if body is None:
                    V('chunks', 'body chunks are not bytes: %r' % (o.chunks,))
                    continue
                bt = validity.base_of(at)
                try:
                    if bt[1] == 'ByteArray':
                        ok = body == v or xsdcodec.parse_prim(bt, body.decode('ascii')) == v
                    elif bt[1] in ('Unicode', 'AnyUri'):
                        ok = body.decode('utf8') == v
                    else:
                        ok = tagged.equal(v, xsdcodec.parse_prim(bt, body.decode('utf8')))
                except (xsdlex.LexError, UnicodeDecodeError, ValueError) as e:
                    ok = False
                if not ok:
                    V('body', 'body is %r' % (body[:200],))
                hd = dict((k.lower(), x) for k, x in (o.headers or []))
                import email.utils
                want_date = email.utils.format_datetime((hds[vi % len(hds)] if hds[vi % len(hds)].tzinfo is not None else hds[vi % len(hds)].replace(tzinfo=tagged.tz(0)))
                                                        .astimezone(tagged.tz(0)).replace(microsecond=0), usegmt=True)
                if hd.get('hx') != '12' or hd.get('hs') != 'hv':
                    V('headers', 'declared out-header fields hx=12, hs=hv not in HTTP headers %r' % (o.headers,))
                elif hd.get('hd') != want_date:
                    V('header-date', 'out-header DateTime %r sent as %r, the HTTP-date of that instant is %r' % (hds[vi % len(hds)], hd.get('hd'), want_date))
                else:
                    res['nontrivial'] += 1
                res['outcomes']['ret'] = res['outcomes'].get('ret', 0) + 1
    else:
        # object_to_simple_dict o simple_dict_to_object == identity, on the real protocol object (no transport)
        for name, program, cases in sig_programs()[1:]:
            for delim in DELIMS:
                h = harness.HttpHarness(program, hier_delim=delim)
                prot = h.app.in_protocol
                b = h.b
                m = b.methods['m']
                an, at = m['args'][0]
                cls = b.classes[at[1]]
                for label, args in cases:
                    v = args[0]
                    if v is None:
                        continue
                    ctx = {'flat': True, 'name': name, 'label': label, 'delim': delim}
                    res['evaluations'] += 1
                    try:
                        inst = spec.to_native(b, at, v)
                        flat = prot.object_to_simple_dict(cls, inst, subinst_eater=lambda p, x, t: p.to_unicode(t, x))
                        doc = {k: (list(x) if isinstance(x, (list, tuple)) else [x]) for k, x in flat.items()}
                        back = prot.simple_dict_to_object(None, doc, cls)
                        got = spec.from_native(b, at, back)
                    except Exception as e:
                        res['violations'].append({'sig': 'C03|flatten-roundtrip-raises|%s|%s|%s' % (name, label, type(e).__name__),
                                                  'what': 'object_to_simple_dict/simple_dict_to_object raised %r for %r' % (e, v), 'case': ctx, 'count': 1})
                        continue
                    if not tagged.equal(v, got):
                        res['violations'].append({'sig': 'C03|flatten-roundtrip|%s|%s' % (name, label),
                                                  'what': 'flattened %r -> %r maps back to %r' % (v, flat, got), 'case': ctx, 'count': 1})
                    else:
                        res['nontrivial'] += 1
                    res['outcomes']['flat'] = res['outcomes'].get('flat', 0) + 1
    from vf.props.c01 import compress
    return compress(res)


def replay(case):
    res = {'evaluations': 0, 'nontrivial': 0, 'outcomes': {}, 'violations': [], 'samples': [], 'cov': {'programs': 0}, 'notes': {}}
    if case.get('methods'):
        run_methods(case['shard'], res, only=case['only'])
        return res['violations']
    if case.get('shared'):
        run_shared(case['shard'], res, only=case['only'])
        return res['violations']
    if case.get('ret') or case.get('flat'):
        r = run_shard({'kind': 'ret' if case.get('ret') else 'flat', 'tier': 'thorough'})
        return r['violations']
    program = case['program']
    h = harness.HttpHarness(program, **case['cfg'])
    m = program['services'][0]['methods'][0]
    args = tagged.dec(case['args'])
    run_get(h, m, args, case['query'], case['expect_fault'], case, res, case['site'])
    return res['violations']
