"""C01 - XML/SOAP wire fidelity.

Bounded-exhaustive enumeration (E1): level A = every atom of the type alphabet in every position x every
conformant value of the atom's boundary alphabet; level B = every small shape x every assignment of
{None, v1, v2} / {None, [], [x], [x,y]}; each x {XmlDocument, Soap11, Soap12} x validator {None, soft, lxml}.
Requests are built from the *published schema* by the reference codec (vf.ref.xsdcodec), responses are decoded by
it, by Spyne's own client code (loopback transport) and - for SOAP - by zeep driven from the WSDL alone."""
import itertools
import json

from vf import tagged, universe, harness, spec, drv, loopback
from vf.tagged import Obj
from vf.ref import xsdcodec, validity

ID = 'C01'
LEVEL = 'exploration'
RULE = ('level A: every (atom, position) program x every conformant alphabet value (plus None where allowed) x 3 protocols '
        'x 3 validators; level B: every shape with <= N fields x every leaf/container assignment. A case is non-trivial '
        'when the user function was entered with a non-None value in the slot under test; distinct by (program, '
        'configuration, value).')
ASSUMPTIONS = ['the reference codec derives names, namespaces, order and occurrence from the published XML Schema only',
               'values that have no denotation under the schema (None in a mandatory non-nillable slot) are outside the domain',
               'zeep value conversions are only trusted where vf.ref.xsdlex agrees (DESIGN 1.3 rule 5)']
FLOOR = {'quick': 2000, 'thorough': 20000}
PROTOS = ['xml', 'soap11', 'soap12']
VALIDATORS = [None, 'soft', 'lxml']


def bounds(tier):
    return {'atoms': len(universe.atoms()), 'positions': universe.POSITIONS, 'protocols': PROTOS, 'validators': ['None', 'soft', 'lxml'],
            'values_per_atom': 8 if tier == 'quick' else 'full alphabet',
            'levelB_max_fields': 2 if tier == 'quick' else 3,
            'levelB_assignment_cap_per_shape': 200 if tier == 'quick' else 1500}


def shards(tier):
    out = []
    for aid, at in universe.atoms(tier):
        for pos in universe.POSITIONS:
            if universe.program_for(at, pos) is None:
                continue
            out.append({'level': 'A', 'atom': aid, 'pos': pos, 'tier': tier})
    n = 2 if tier == 'quick' else 3
    shp = list(universe.shapes(n))
    per = 6 if tier == 'quick' else 12
    for i in range(0, len(shp), per):
        out.append({'level': 'B', 'n': n, 'lo': i, 'hi': min(len(shp), i + per), 'tier': tier})
    for gid in universe.ALIAS_GIDS:
        out.append({'level': 'G', 'gid': gid, 'tier': tier})
    # the output protocol configured with another (legal) character encoding
    for enc in ENCODINGS:
        for pos in ('arg', 'field', 'array'):
            out.append({'level': 'E', 'encoding': enc, 'pos': pos, 'tier': tier})
    out.append({'level': 'H', 'tier': tier})
    # header histories: which of two declared header blocks a request carries, in every order of three requests
    for first in range(4):
        out.append({'level': 'J', 'first': first, 'tier': tier})
    # call-order histories over a three-level class hierarchy (shared with C02)
    for first in ('mb', 'ms', 'ml'):
        out.append({'level': 'I', 'first': first, 'tier': tier})
    return out


HDR_SHAPES = [('both', True, True), ('first-only', True, False), ('second-only', False, True), ('none', False, False)]


def run_header_histories(shard, res, only=None):
    """one application, a method declaring two in / out header classes: requests that carry both, one or none of the
    blocks in every order; the function (and the response) must see exactly the blocks of THAT request"""
    at = atom_by_id('Integer')
    program = universe.program_for(at, 'header2a')
    res['cov']['programs'] += 1
    depth = 3 if shard.get('tier', 'quick') == 'quick' else 4
    for rest in itertools.product(range(4), repeat=depth - 1):
        hist = [shard['first']] + list(rest)
        if only is not None and only['hist'] != hist:
            continue
        for proto in ('soap11', 'soap12'):
            for validator in (None, 'soft', 'lxml'):
                if only is not None and (only['proto'] != proto or only['validator'] != validator):
                    continue
                h = harness.XmlHarness(program, proto, validator)
                for step, si in enumerate(hist):
                    name, g, hh = HDR_SHAPES[si]
                    ih = {'G': Obj('G', g='g%d' % step) if g else None, 'H': Obj('H', f=100 + step, z=step) if hh else None}
                    oh = {'G': Obj('G', g='og%d' % step) if hh else None, 'H': Obj('H', f=200 + step, z=step) if g else None}
                    casedoc = {'level': 'J', 'shard': shard, 'hist': hist, 'proto': proto, 'validator': validator, 'step': step}
                    ctx = {'site': 'J|%s|after-%s' % (name, '+'.join(sorted(set(HDR_SHAPES[i][0] for i in hist[:step]))) or 'nothing'), 'case': casedoc}
                    oc = run_case(h, 'm', [step], step * 2, ih if (g or hh) else None, oh, ctx, res, check_client=False)
                    res['evaluations'] += 1
                    res['outcomes'][oc] = res['outcomes'].get(oc, 0) + 1
                    if oc == 'ok':
                        res['nontrivial'] += 1
                    else:
                        break
        res['cov']['header_histories'] = res['cov'].get('header_histories', 0) + 1


def run_hier(shard, res, only=None):
    """every order in which one application (server, and Spyne's client) meets the classes Base <- Sub <- Leaf"""
    from vf.props import c02
    tier = shard.get('tier', 'quick')
    program = c02.hier_program()
    res['cov']['programs'] += 1
    depth = 3 if tier == 'quick' else 4
    for rest in itertools.product(c02.HIER_METHODS, repeat=depth - 1):
        hist = [shard['first']] + list(rest)
        if only is not None and only['hist'] != hist:
            continue
        for proto in ('xml', 'soap11', 'soap12'):
            for validator in (None, 'soft', 'lxml', 'client'):
                if only is not None and (only['proto'] != proto or only['validator'] != validator):
                    continue
                if validator == 'client':
                    h, ch = client_harness(program, proto)
                else:
                    h = harness.XmlHarness(program, proto, validator)
                for step, mname in enumerate(hist):
                    v = c02.hier_value(mname, step + 1)
                    casedoc = {'level': 'I', 'shard': shard, 'hist': hist, 'proto': proto, 'validator': validator, 'step': step}
                    ctx = {'site': 'I|%s|after-%s' % (mname, '+'.join(sorted(set(hist[:step]))) or 'nothing'), 'case': casedoc}
                    if validator == 'client':
                        oc = client_case(h, ch, mname, [v, 7], v, None, None, ctx, res)
                    else:
                        oc = run_case(h, mname, [v, 7], v, None, None, ctx, res, check_client=False)
                    res['evaluations'] += 1
                    res['outcomes'][oc] = res['outcomes'].get(oc, 0) + 1
                    if oc == 'ok':
                        res['nontrivial'] += 1
                    else:
                        break
        res['cov']['call_order_histories'] = res['cov'].get('call_order_histories', 0) + 1


def atom_by_id(aid):
    for a, t in universe.atoms():
        if a == aid:
            return t
    raise KeyError(aid)


def vlabel(label):
    return label.split('|')[0] if label else ''


def run_case(h, mname, args, ret, ih, oh, ctx, res, check_client=True):
    """one request on harness h.  ctx = dict describing the case (for replay); res = shard result accumulator.
    returns outcome label"""
    b = h.b
    m = b.methods[mname]
    site = ctx['site']

    def V(kind, detail, what):
        res['violations'].append({'sig': 'C01|%s|%s|%s%s' % (kind, h.proto, site, ('|' + detail) if detail else ''),
                                  'what': '[%s validator=%s] %s' % (h.proto, h.validator, what), 'case': ctx['case'], 'count': 1})

    try:
        req = xsdcodec.build_request(h.codec, m, args, h.proto, header=ih)
    except xsdcodec.NotDenotable:
        return 'not-denotable'
    except xsdcodec.SchemaError as e:
        V('schema-cannot-express', '', 'the published schema cannot carry the declared signature: %s' % e)
        return 'schema-error'
    sch = None
    if ctx.get('validate_request', True):
        from lxml import etree
        try:
            sch = h.lxml_schema()
        except etree.XMLSchemaParseError:
            sch = None
    if sch is not None:
        doc = etree.fromstring(req)
        payload = doc
        env = xsdcodec.envelope_ns(h.proto)
        if env:
            payload = doc.find(xsdcodec.q(env, 'Body'))[0]
        if not sch.validate(payload):
            res['notes']['request-not-schema-valid'] = res['notes'].get('request-not-schema-valid', 0) + 1
            V('request-invalid-under-published-schema', '', 'reference request for conformant values is rejected by the published schema: %s; request=%s' % (
                sch.error_log.last_error, req[:400]))
            return 'request-invalid'
    o = h.call_raw(mname, req, ret, oh)
    if o.escaped is not None:
        V('escape', '%s@%s' % (type(o.escaped).__name__, o.escaped_where), 'exception escaped at stage %s: %r; request=%s' % (o.stage, o.escaped, req[:300]))
        return 'escape'
    calls = h.captured(mname)
    if o.fault is not None:
        V('refused', str(o.fault.faultcode) + ('|entered' if calls else ''), 'valid request answered with fault %s: %s; request=%s' % (
            o.fault.faultcode, str(o.fault.faultstring)[:200], req[:400]))
        return 'refused'
    if len(calls) != 1:
        V('invocations', str(len(calls)), 'function entered %d times' % len(calls))
        return 'invocations'
    got_args, got_hdr = calls[0][1], calls[0][2]
    outcome = 'ok'
    if not tagged.equal(args, got_args):
        V('args', '', 'sent %r, function received %r; request=%s' % (args, got_args, req[:400]))
        outcome = 'args'
    if ih is not None and not tagged.equal(ih, got_hdr):
        V('in-header', '', 'sent header %r, function saw %r' % (ih, got_hdr))
        outcome = 'in-header'
    try:
        kind, val, hdrs = xsdcodec.parse_response(h.codec, m, o.out, h.proto)
    except (xsdcodec.DecodeError, xsdcodec.SchemaError) as e:
        V('response-undecodable', type(e).__name__, 'response cannot be decoded under the published schema: %s; response=%s' % (e, o.out[:400]))
        return 'response-undecodable'
    if kind != 'ok':
        V('response-fault', '', 'fault document for a successful call: %r' % (val,))
        return 'response-fault'
    if not tagged.equal(ret, val):
        V('result', '', 'function returned %r, response denotes %r; response=%s' % (ret, val, o.out[:400]))
        outcome = 'result'
    if oh is not None:
        hdrs = {c: (hdrs or {}).get(c) for c in (m.get('out_header') or [])}
    if oh is not None and not tagged.equal(oh, hdrs):
        V('out-header', '', 'function set header %r, response carries %r' % (oh, hdrs))
        outcome = 'out-header'
    if sch is not None:
        from lxml import etree
        doc = etree.fromstring(o.out)
        payload = doc
        env = xsdcodec.envelope_ns(h.proto)
        if env:
            payload = doc.find(xsdcodec.q(env, 'Body'))[0]
        if not h.lxml_schema().validate(payload):
            res['notes']['response-not-schema-valid'] = res['notes'].get('response-not-schema-valid', 0) + 1
    return outcome


def client_case(h, ch, mname, args, ret, ih, oh, ctx, res):
    """the same call through Spyne's own client code (wrapped style only)"""
    b = h.b
    m = b.methods[mname]
    site = ctx['site']

    def V(kind, detail, what):
        res['violations'].append({'sig': 'C01|client-%s|%s|%s%s' % (kind, h.proto, site, ('|' + detail) if detail else ''),
                                  'what': '[%s loopback client] %s' % (h.proto, what), 'case': ctx['case'], 'count': 1})
    nargs = [spec.to_native(b, a[1], v) for a, v in zip(m.get('args', []), args)]
    b.rec.reset()
    b.rec.script[mname] = ('ret', h.natives(m, ret))
    if oh:
        hs = [spec.to_native(b, ['c', x, {}], oh.get(x)) for x in m.get('out_header', [])]
        b.rec.script[('out_header', mname)] = hs[0] if len(hs) == 1 else hs
    cl = ch['client']
    if ih:
        hs = [spec.to_native(b, ['c', x, {}], ih.get(x)) for x in m.get('in_header', [])]
        cl.set_options(out_header=hs[0] if len(hs) == 1 else hs)
    else:
        cl.set_options(out_header=None)
    try:
        r = getattr(cl.service, mname)(*nargs)
    except Exception as e:
        from spyne.model.fault import Fault
        V('raises', type(e).__name__ + '@' + drv.innermost_spyne_frame(e), 'client call raised %r' % (e,))
        return 'client-raises'
    calls = h.captured(mname)
    if len(calls) != 1 or not tagged.equal(args, calls[0][1]):
        V('args', '', 'client sent %r, function received %r; request=%s' % (args, [c[1] for c in calls], (cl.last_request or b'')[:400]))
        return 'client-args'
    # the request Spyne's client wrote must also mean the same to a schema-driven peer that is not Spyne (qualified names,
    # schema order) - Spyne's own reader is more tolerant than that
    if cl.last_request:
        try:
            peer = xsdcodec.parse_request(h.codec, m, cl.last_request, h.proto)
            if not tagged.equal(args, peer):
                V('request-peer', '', 'client sent %r, a schema-driven peer reads %r; request=%s' % (args, peer, cl.last_request[:400]))
                return 'client-request'
        except xsdcodec.DecodeError as e:
            V('request-peer', 'undecodable', 'the request the client wrote for %r cannot be read under the published schema: %s; request=%s' % (args, e, cl.last_request[:400]))
            return 'client-request'
        except (xsdcodec.SchemaError, xsdcodec.NotDenotable):
            pass
    rt = m.get('ret')
    if rt is None:
        return 'ok'
    if isinstance(rt[0], list):
        # the client hands back the response wrapper object; read its fields in order
        try:
            vals = tuple(spec.from_native(b, t, getattr(r, k)) for t, k in zip(rt, r.get_flat_type_info(type(r)).keys()))
        except Exception as e:
            V('result-shape', type(e).__name__, 'client returned %r for multiple return values' % (r,))
            return 'client-result'
        got = vals
    else:
        got = spec.from_native(b, rt, r)
    if not tagged.equal(ret, got):
        V('result', '', 'function returned %r, client decoded %r; response=%s' % (ret, got, (cl.last_response or b'')[:400]))
        return 'client-result'
    return 'ok'


def harnesses(program, res, out_kw=None):
    """one harness per configuration; a schema that does not compile is C06's finding: the lxml configuration is
    skipped (and counted) so that C01 still covers the other validators"""
    from lxml import etree
    hs = []
    for proto in PROTOS:
        for val in VALIDATORS:
            try:
                hs.append(harness.XmlHarness(program, proto, val, out_kw=out_kw))
            except etree.XMLSchemaParseError:
                if val != 'lxml':
                    raise
                res['notes']['published-schema-does-not-compile(C06)'] = res['notes'].get('published-schema-does-not-compile(C06)', 0) + 1
    return hs


def client_harness(program, proto, out_kw=None):
    """server harness + loopback client sharing one build"""
    h = harness.XmlHarness(program, proto, None, out_kw=out_kw)
    capp = spec.make_app(h.b, harness.make_proto(proto), harness.make_proto(proto))

    def send(req):
        o = drv.call_server(h.srv, req)
        if o.escaped is not None:
            raise o.escaped
        return o.out
    return h, {'client': loopback.make_client(capp, send)}


def run_program(program, cases, res, shard_desc, want_client=True, out_kw=None):
    """cases: list of (site, label, args, ret, ih, oh, casedoc)"""
    m = program['services'][0]['methods'][0]
    mname = m['n']
    style = xsdcodec.body_style(m)
    try:
        hs = harnesses(program, res, out_kw)
    except Exception as e:
        res['violations'].append({'sig': 'C01|build|%s|%s' % (shard_desc, type(e).__name__),
                                  'what': 'application for a legal program cannot be built: %r' % (e,),
                                  'case': {'program': program, 'build_only': True, 'desc': shard_desc}, 'count': 1})
        return
    chs = []
    if want_client and style == 'wrapped':
        for proto in PROTOS:
            try:
                chs.append(client_harness(program, proto, out_kw))
            except Exception as e:
                res['violations'].append({'sig': 'C01|client-build|%s|%s' % (proto, type(e).__name__),
                                          'what': 'client application cannot be built: %r' % (e,),
                                          'case': {'program': program, 'build_only': True}, 'count': 1})
    seen = set()
    for site, label, args, ret, ih, oh, casedoc, nontrivial in cases:
        for h in hs:
            if ih is not None and h.proto == 'xml':
                continue   # no envelope, no headers
            ctx = {'site': site, 'case': dict(casedoc, proto=h.proto, validator=h.validator)}
            oc = run_case(h, mname, args, ret, ih, oh, ctx, res)
            res['evaluations'] += 1
            res['outcomes'][oc] = res['outcomes'].get(oc, 0) + 1
            if oc == 'ok' and nontrivial:
                k = (h.proto, h.validator, json.dumps(casedoc.get('value', casedoc.get('args')), sort_keys=True, default=str))
                if k not in seen:
                    seen.add(k)
                    res['nontrivial'] += 1
        for h, ch in chs:
            if ih is not None and h.proto == 'xml':
                continue
            ctx = {'site': site, 'case': dict(casedoc, proto=h.proto, validator=None, client=True)}
            oc = client_case(h, ch, mname, args, ret, ih, oh, ctx, res)
            res['evaluations'] += 1
            res['cov']['client_calls'] = res['cov'].get('client_calls', 0) + 1
            res['outcomes']['client:' + oc] = res['outcomes'].get('client:' + oc, 0) + 1


def compress(res):
    bysig = {}
    for v in res['violations']:
        cur = bysig.get(v['sig'])
        if cur is None:
            bysig[v['sig']] = v
        else:
            cur['count'] += v.get('count', 1)
            if len(json.dumps(v['case'], default=str)) < len(json.dumps(cur['case'], default=str)):
                v['count'] = cur['count']
                bysig[v['sig']] = v
    res['violations'] = list(bysig.values())
    return res


def new_res():
    return {'evaluations': 0, 'nontrivial': 0, 'outcomes': {}, 'violations': [], 'samples': [], 'cov': {'programs': 0}, 'notes': {}}


def cases_A(aid, pos, tier):
    at = atom_by_id(aid)
    limit = 8 if tier == 'quick' else None
    out = []
    for label, v in universe.slot_values(pos, at, tier, limit):
        args, ret, ih, oh = universe.embed(pos, at, v)
        site = '%s|%s|%s' % (aid, pos, vlabel(label))
        casedoc = {'level': 'A', 'atom': aid, 'pos': pos, 'label': label, 'value': tagged.enc(v)}
        nontrivial = v is not None and v != []
        out.append((site, label, args, ret, ih, oh, casedoc, nontrivial))
    return out


def cases_G(gid, tier):
    """object graphs in which the same native instance occurs at several non-nested positions"""
    out = []
    for label, v in universe.alias_values(gid, tier):
        args = [v, 7]
        casedoc = {'level': 'G', 'gid': gid, 'label': label, 'args': tagged.enc(args)}
        out.append(('G|%s' % gid, 'G', args, v, None, None, casedoc, True))
    return out


def run_subnames(res, only=None):
    """members published under another name than their attribute name (sub_name), declared in a parent class and used
    through a subclass, a customised variant and an array: written-out documents (the reference codecs address members by
    attribute name), compared element by element"""
    from lxml import etree
    I_, U_ = ['p', 'Integer', {}], ['p', 'Unicode', {}]
    prog = {'tns': universe.TNS, 'classes': [
        {'n': 'P0', 'fields': [['v', ['p', 'Integer', {'sub_name': 'renamed'}]], ['w', ['p', 'Unicode', {'sub_name': 'dubya', 'min_occurs': 1}]], ['k', I_]]},
        {'n': 'P', 'base': 'P0', 'fields': [['y', ['p', 'Integer', {'sub_name': 'why'}]]]}],
        'services': [{'n': 'S', 'methods': [{'n': 'm', 'args': [['a', ['c', 'P', {}]], ['b', ['c', 'P0', {}]], ['l', ['a', ['c', 'P', {}], {}]],
                                                                 ['c', ['c', 'P', {'min_occurs': 1}]]], 'ret': ['c', 'P', {}]}]}]}
    T = universe.TNS

    def obj(tag, v, w, k, y=None):
        inner = '<t:renamed>%d</t:renamed><t:dubya>%s</t:dubya><t:k>%d</t:k>' % (v, w, k) + ('<t:why>%d</t:why>' % y if y is not None else '')
        return '<t:%s>%s</t:%s>' % (tag, inner, tag)
    body = '<t:m xmlns:t="%s">%s%s<t:l>%s%s</t:l>%s</t:m>' % (T, obj('a', 1, 'one', 11, 111), obj('b', 2, 'two', 22), obj('P', 3, 'three', 33, 333), obj('P', 4, 'four', 44, 444),
                                                          obj('c', 5, 'five', 55, 555))
    want_args = [Obj('P', v=1, w='one', k=11, y=111), Obj('P0', v=2, w='two', k=22),
                 [Obj('P', v=3, w='three', k=33, y=333), Obj('P', v=4, w='four', k=44, y=444)], Obj('P', v=5, w='five', k=55, y=555)]
    ret = Obj('P', v=7, w='seven', k=77, y=777)
    for proto in PROTOS:
        for val in VALIDATORS:
            key = ['H', proto, val]
            if only is not None and only != key:
                continue
            h = harness.XmlHarness(prog, proto, val)
            env = xsdcodec.envelope_ns(proto)
            req = (('<e:Envelope xmlns:e="%s"><e:Body>%s</e:Body></e:Envelope>' % (env, body)) if env else body).encode('utf8')
            o = h.call_raw('m', req, ret)
            res['evaluations'] += 1
            casedoc = {'level': 'H', 'only': key}

            def V(kind, what):
                res['violations'].append({'sig': 'C01|sub-name|%s|%s' % (kind, proto), 'what': '[%s validator=%s] %s' % (proto, val, what), 'case': casedoc, 'count': 1})
            if o.escaped is not None or o.fault is not None:
                V('refused', 'valid request with sub_name members: escaped=%r fault=%r' % (o.escaped, o.fault))
                continue
            calls = h.captured('m')
            if len(calls) != 1 or not tagged.equal(want_args, calls[0][1]):
                V('args', 'sent %r, function received %r' % (want_args, [c[1] for c in calls]))
                continue
            root = etree.fromstring(o.out)
            got = {etree.QName(e).localname: e.text for e in root.iter() if isinstance(e.tag, str) and len(e) == 0}
            want = {'renamed': '7', 'dubya': 'seven', 'k': '77', 'why': '777'}
            if got != want:
                V('result', 'function returned %r, the response carries %r (expected %r)' % (ret, got, want))
                continue
            res['nontrivial'] += 1
            res['outcomes']['sub-name-ok'] = res['outcomes'].get('sub-name-ok', 0) + 1


ENCODINGS = ['iso-8859-1', 'utf-16', 'ascii', 'utf-8']


def run_shard(shard):
    res = new_res()
    tier = shard.get('tier', 'quick')
    if shard['level'] == 'H':
        run_subnames(res)
        res['cov']['programs'] += 1
        return compress(res)
    if shard['level'] == 'I':
        run_hier(shard, res)
        return compress(res)
    if shard['level'] == 'J':
        run_header_histories(shard, res)
        return compress(res)
    if shard['level'] == 'E':
        program = universe.program_for(atom_by_id('Unicode'), shard['pos'])
        res['cov']['programs'] += 1
        cases = []
        for c in cases_A('Unicode', shard['pos'], 'thorough'):
            cases.append(c[:6] + (dict(c[6], out_kw={'encoding': shard['encoding']}),) + c[7:])
        run_program(program, cases, res, 'E|%s|%s' % (shard['encoding'], shard['pos']), out_kw={'encoding': shard['encoding']})
        res['cov']['encodings'] = 1
        return compress(res)
    if shard['level'] == 'G':
        program = universe.alias_program(shard['gid'])
        res['cov']['programs'] += 1
        cases = cases_G(shard['gid'], tier)
        run_program(program, cases, res, 'G|%s' % shard['gid'])
        res['cov']['aliased_graphs'] = len(cases)
        res['samples'].append({'program': program, 'case': cases[0][6]})
    elif shard['level'] == 'A':
        at = atom_by_id(shard['atom'])
        program = universe.program_for(at, shard['pos'])
        res['cov']['programs'] += 1
        cases = cases_A(shard['atom'], shard['pos'], tier)
        run_program(program, cases, res, '%s|%s' % (shard['atom'], shard['pos']))
        if cases:
            res['samples'].append({'program': program, 'case': cases[min(1, len(cases) - 1)][6]})
    else:
        shp = list(universe.shapes(shard['n']))[shard['lo']:shard['hi']]
        cap = 200 if tier == 'quick' else 1500
        for si, shape in enumerate(shp):
            for style in ('wrapped', 'bare') if len(shape) and tier == 'thorough' else ('wrapped',):
                program, root = universe.shape_program(shape, style)
                res['cov']['programs'] += 1
                vals = universe.shape_assignments(program, root, cap)
                if len(vals) == cap:
                    res['notes']['levelB-assignment-cap-hit'] = res['notes'].get('levelB-assignment-cap-hit', 0) + 1
                cases = []
                for vi, v in enumerate(vals):
                    args = [v, 7] if style == 'wrapped' else [v]
                    site = 'B|%s' % shape_sig(shape)
                    casedoc = {'level': 'B', 'shape': shape, 'style': style, 'index': vi, 'args': tagged.enc(args)}
                    cases.append((site, 'B', args, v, None, None, casedoc, True))
                run_program(program, cases, res, 'B', want_client=(vi_small(len(vals))))
                if si == 0 and cases:
                    res['samples'].append({'shape': shape, 'case': cases[-1][6]})
    return compress(res)


def vi_small(n):
    return True


def shape_sig(shape):
    def f(fs):
        return '(' + ','.join('%s:%s' % (h[0], w if isinstance(w, str) else f(w)) for h, w in fs) + ')'
    return f(shape)


def replay(case):
    res = new_res()
    if case.get('build_only'):
        run_program(case['program'], [], res, case.get('desc', 'replay'))
        return res['violations']
    if case['level'] == 'H':
        run_subnames(res, case['only'])
        return res['violations']
    if case['level'] == 'I':
        run_hier(case['shard'], res, only=case)
        return res['violations']
    if case['level'] == 'J':
        run_header_histories(case['shard'], res, only=case)
        return res['violations']
    if case['level'] == 'A':
        at = atom_by_id(case['atom'])
        program = universe.program_for(at, case['pos'])
        v = tagged.dec(case['value'])
        args, ret, ih, oh = universe.embed(case['pos'], at, v)
        site = '%s|%s|%s' % (case['atom'], case['pos'], vlabel(case['label']))
    elif case['level'] == 'G':
        program = universe.alias_program(case['gid'])
        args = tagged.dec(case['args'])
        ret = args[0]
        ih = oh = None
        site = 'G|%s' % case['gid']
    else:
        shape = json.loads(json.dumps(case['shape']))
        shape = _tuplify(shape)
        program, root = universe.shape_program(shape, case['style'])
        args = tagged.dec(case['args'])
        ret = args[0]
        ih = oh = None
        site = 'B|%s' % shape_sig(shape)
    mname = program['services'][0]['methods'][0]['n']
    ctx = {'site': site, 'case': case}
    if case.get('client'):
        h, ch = client_harness(program, case['proto'], case.get('out_kw'))
        client_case(h, ch, mname, args, ret, ih, oh, ctx, res)
    else:
        h = harness.XmlHarness(program, case['proto'], case['validator'], out_kw=case.get('out_kw'))
        run_case(h, mname, args, ret, ih, oh, ctx, res)
    return res['violations']


def _tuplify(shape):
    return [(h, w if isinstance(w, str) else _tuplify(w)) for h, w in shape]
