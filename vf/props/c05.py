"""C05 - soft validation enforces exactly the declared constraints in every protocol.

Bounded-exhaustive enumeration (E1) of the facet lattice: every single facet and selected pairs x values on,
just inside and just outside every boundary (all values of the 8-bit types +-16, all of the 16-bit types in the
thorough tier) x occurrence counts 0..max+2 x lexically ill-formed literals x positions {argument, nested field,
array member, XML attribute} x six protocol families with validator='soft'.  Oracle: vf.ref.validity decides the
expected verdict; accept => the function ran once with the value, reject => it did not run and the fault is in the
Client family.  Since every family is compared with the same expected verdict the verdict vector is constant."""
import datetime as _dt
import decimal
import itertools
import json

from vf import tagged, harness, spec, drv, universe
from vf.ref import validity, xsdcodec, dictcodec, httpcodec, xsdlex
from vf.ref.special import Raw, Repeat, Absent, Nil
from vf.tagged import Obj

ID = 'C05'
LEVEL = 'exploration'
RULE = ('every (constrained type, position, protocol family) x every boundary / near-boundary / ill-formed value; a case is '
        'non-trivial when the expected verdict could be computed and the request was denotable in that family; distinct by '
        '(facet, position, family, value)')
ASSUMPTIONS = ['vf.ref.validity is the reference semantics of the declared constraints',
               'exponent notation for decimals and case variants of booleans are not demanded to be refused (the repository\'s own tests send them)',
               'HttpRpc cannot spell None/nil and JSON cannot repeat a key: those combinations are skipped and counted']
FLOOR = {'quick': 3000, 'thorough': 30000}
FAMILIES = ['xml', 'soap11', 'json', 'yaml', 'msgpack', 'http']
D = decimal.Decimal
E = tagged.enc


def T(name, **a):
    return ['p', name, {k: (v if isinstance(v, (int, str, bool, list)) else E(v)) for k, v in a.items()}]


def _numeric_probe(t):
    a = validity.attrs_of(t)
    name = validity.base_of(t)[1]
    pts = set()
    step = D('0.01') if name == 'Decimal' else (0.5 if name in ('Double', 'Float') else 1)
    for k in ('ge', 'gt', 'le', 'lt'):
        if k in a:
            b = tagged.dec(a[k])
            for d in (-1, 0, 1):
                pts.add(b + d * step if name != 'Decimal' else D(b) + d * step)
    xs = xsdlex.XS_OF.get(name)
    if xs in xsdlex.INT_RANGES:
        lo, hi = xsdlex.INT_RANGES[xs]
        for b in (lo, hi):
            if b is not None:
                pts.update([b - 1, b, b + 1])
        pts.update([0, 1, -1])
    if not pts:
        pts.update([0, 1])
    return sorted(pts)


def facets(tier):
    """[(facet id, type ref, [(label, value)])]  values are natives, Raw(), Nil, Absent"""
    F = []

    def add(fid, t, vals):
        F.append((fid, t, vals))
    bad_int = [Raw(x) for x in ('1,5', '0x10', '1.0', 'abc', '', '--1', '1 2')]
    for fid, t in [('Integer(ge,le)', T('Integer', ge=-5, le=5)), ('Integer(gt,lt)', T('Integer', gt=-5, lt=5)),
                   ('Integer(ge)', T('Integer', ge=0)), ('Integer(lt)', T('Integer', lt=10)),
                   ('Integer(gt,le)', T('Integer', gt=0, le=3)),
                   ('Long', T('Long')), ('Int', T('Int')), ('UnsignedInt', T('UnsignedInt')), ('UnsignedLong', T('UnsignedLong')),
                   ('Int(ge)', T('Int', ge=100)), ('Byte(le)', T('Byte', le=100)), ('UnsignedByte(gt)', T('UnsignedByte', gt=10))]:
        add(fid, t, [('num:%s' % v, v) for v in _numeric_probe(t)] + [('raw:%s' % r.text, r) for r in bad_int[:4]])
    # a bound that sits exactly on the limit of a fixed-width type (exclusive: the limit value itself is out)
    for name, lo, hi in (('Byte', -128, 127), ('UnsignedByte', 0, 255), ('Short', -32768, 32767), ('UnsignedInt', 0, 4294967295)):
        for k, bound in (('gt', lo), ('ge', lo), ('lt', hi), ('le', hi)):
            t = T(name, **{k: bound})
            add('%s(%s=limit)' % (name, k), t, [('num:%s' % v, v) for v in _numeric_probe(t)])
    wide8 = list(range(-128 - 16, 127 + 17))
    add('Byte', T('Byte'), [('num', v) for v in wide8])
    add('UnsignedByte', T('UnsignedByte'), [('num', v) for v in range(-16, 255 + 17)])
    if tier == 'thorough':
        add('Short', T('Short'), [('num', v) for v in range(-32768 - 16, 32767 + 17)])
        add('UnsignedShort', T('UnsignedShort'), [('num', v) for v in range(-16, 65535 + 17)])
    else:
        add('Short', T('Short'), [('num:%s' % v, v) for v in _numeric_probe(T('Short'))])
        add('UnsignedShort', T('UnsignedShort'), [('num:%s' % v, v) for v in _numeric_probe(T('UnsignedShort'))])
    add('Decimal(td,fd)', ['p', 'Decimal', {'total_digits': 4, 'fraction_digits': 2}],
        # total/fraction digits are not among the constraints the property lists for soft validation: only
        # digit-conformant values (and ill-formed literals) are sent for this type
        [('dec:%s' % s, D(s)) for s in ('0', '1', '12.34', '99.99', '-12.34', '0.01')] +
        [('raw:abc', Raw('abc')), ('raw:1,5', Raw('1,5'))])
    add('Decimal(gt)', ['p', 'Decimal', {'gt': E(D('0'))}], [('dec:%s' % s, D(s)) for s in ('0', '0.01', '-0.01', '1', '-1')])
    add('Decimal(ge,le)', ['p', 'Decimal', {'ge': E(D('0')), 'le': E(D('1'))}],
        [('dec:%s' % s, D(s)) for s in ('0', '1', '-0.01', '1.01', '0.5')])
    add('Double(ge,le)', ['p', 'Double', {'ge': E(0.0), 'le': E(1.0)}],
        [('dbl:%r' % v, v) for v in (0.0, 1.0, -0.5, 1.5, 0.5)] + [('raw:abc', Raw('abc')), ('raw:1,5', Raw('1,5'))])
    for fid, t in [('Unicode(min_len)', T('Unicode', min_len=2)), ('Unicode(max_len)', T('Unicode', max_len=3)),
                   ('Unicode(min_len,max_len)', T('Unicode', min_len=2, max_len=3))]:
        add(fid, t, [('len:%d' % n, 'x' * n) for n in (0, 1, 2, 3, 4)] + [('len:2nonbmp', '\U0001F600\U0001F600')])
    add('Unicode(pattern)', T('Unicode', pattern='[a-z]+'),
        [('match', 'abc'), ('nomatch', '123'), ('prefix-match', 'abc1'), ('suffix-match', '1abc'), ('empty', ''), ('newline-tail', 'abc\n')])
    add('Unicode(pattern,max_len)', T('Unicode', pattern='[a-z]+', max_len=3),
        [('match', 'abc'), ('match-too-long', 'abcd'), ('nomatch-short', '12')])
    add('Unicode(values)', T('Unicode', values=['a', 'bc', 'true']),
        [('member', 'a'), ('member2', 'true'), ('nonmember', 'b'), ('case-variant', 'A'), ('prefix', 'ab'), ('empty', '')])
    add('Enum', ['e', 'Color', {}], [('member', 'red'), ('member-space', 'dark blue'), ('nonmember', 'blue'), ('case-variant', 'Red')])
    d, dt, tm = _dt.date, _dt.datetime, _dt.time
    add('Date(ge,le)', ['p', 'Date', {'ge': E(d(2000, 1, 1)), 'le': E(d(2000, 12, 31))}],
        [('date:%s' % x, x) for x in (d(1999, 12, 31), d(2000, 1, 1), d(2000, 6, 1), d(2000, 12, 31), d(2001, 1, 1))] +
        [('raw:%s' % x, Raw(x)) for x in ('2000-13-01', '2000-02-30', '20000101', 'abc')])
    add('Date(gt,lt)', ['p', 'Date', {'gt': E(d(2000, 1, 1)), 'lt': E(d(2000, 12, 31))}],
        [('date:%s' % x, x) for x in (d(2000, 1, 1), d(2000, 1, 2), d(2000, 12, 30), d(2000, 12, 31))])
    z = tagged.tz(0)
    add('DateTime(ge,le)', ['p', 'DateTime', {'ge': E(dt(2000, 1, 1, tzinfo=z)), 'le': E(dt(2000, 12, 31, tzinfo=z))}],
        [('dt:%s' % x.isoformat(), x) for x in (dt(1999, 12, 31, 23, 59, 59, tzinfo=z), dt(2000, 1, 1, tzinfo=z), dt(2000, 6, 1, tzinfo=z),
                                                dt(2000, 12, 31, tzinfo=z), dt(2000, 12, 31, 0, 0, 1, tzinfo=z),
                                                dt(2000, 1, 1, 1, 0, 0, tzinfo=tagged.tz(120)))] +
        [('raw:%s' % x, Raw(x)) for x in ('2000-01-01T25:00:00Z', '2000-13-01T00:00:00Z', 'abc', '2000-01-01')])
    add('Time(ge,le)', ['p', 'Time', {'ge': E(tm(9, 0, 0)), 'le': E(tm(17, 0, 0))}],
        [('time:%s' % x, x) for x in (tm(8, 59, 59), tm(9, 0, 0), tm(12, 0, 0), tm(17, 0, 0), tm(17, 0, 1))] +
        [('raw:%s' % x, Raw(x)) for x in ('25:00:00', 'abc')])
    add('Boolean', T('Boolean'), [('true', True), ('false', False), ('raw:maybe', Raw('maybe')), ('raw:yes', Raw('yes')), ('raw:2', Raw('2'))])
    add('Duration', T('Duration'), [('ok', _dt.timedelta(seconds=5))] + [('raw:%s' % x, Raw(x)) for x in ('abc', '1D', 'P1S', 'PT1Sx')])
    add('Uuid', T('Uuid'), [('ok', universe.values.UUIDS[1][1]), ('raw:abc', Raw('abc')), ('raw:bad-hex', Raw('zzzzzzzz-1234-5678-1234-567812345678')),
                            # forms a lenient UUID constructor reads although they are outside the declared pattern
                            ('raw:no-hyphens', Raw('12345678123456781234567812345678')), ('raw:braces', Raw('{12345678-1234-5678-1234-567812345678}')),
                            ('raw:urn', Raw('urn:uuid:12345678-1234-5678-1234-567812345678')), ('raw:moved-hyphens', Raw('1234-5678-1234-5678-1234-5678-1234-5678')),
                            ('raw:too-short', Raw('12345678-1234-5678-1234-56781234567'))])
    add('ByteArray', T('ByteArray'), [('ok', b'abc'), ('raw:bad-length', Raw('a')), ('raw:bad-chars', Raw('!!!!'))])
    add('ByteArray(hex)', T('ByteArray', encoding='hex'), [('ok', b'abc'), ('raw:odd', Raw('abc')), ('raw:bad-chars', Raw('zz'))])
    # the whole lattice of range constraints: each of ge, gt, le, lt unset or one of two bounds (all 81 combinations,
    # including both an inclusive and an exclusive bound on the same side) x every value around the bounds
    for name, lows, highs, mk, probes in _lattices(tier):
        for ge, gt, le, lt in itertools.product((None,) + lows, (None,) + lows, (None,) + highs, (None,) + highs):
            a = {k: E(mk(b)) if not isinstance(mk(b), int) else mk(b) for k, b in (('ge', ge), ('gt', gt), ('le', le), ('lt', lt)) if b is not None}
            if not a:
                continue
            fid = '%s-lattice(%s)' % (name, ','.join('%s=%s' % (k, b) for k, b in (('ge', ge), ('gt', gt), ('le', le), ('lt', lt)) if b is not None))
            add(fid, ['p', name, a], [('n:%s' % x, mk(x)) for x in probes])
    # the lattice of string facets: min_len x max_len x pattern (fixed length included), every value around them
    for mn_, mx_, pat in itertools.product((None, 2), (None, 2, 3), (None, '[A-Z]+')):
        a = {k: v for k, v in (('min_len', mn_), ('max_len', mx_), ('pattern', pat)) if v is not None}
        if not a:
            continue
        fid = 'Unicode-lattice(%s)' % ','.join('%s=%s' % kv for kv in sorted(a.items()))
        add(fid, ['p', 'Unicode', a], [('s:%s' % x, x) for x in ('A', 'AB', 'ABC', 'ABCD', 'tr', 't1', 'a', 'abc')] + [('s:empty', '')])
    # nullability x occurrence
    for fid, t in [('Integer()', T('Integer')), ('Integer(nillable=False)', T('Integer', nillable=False)),
                   ('Integer(min_occurs=1)', T('Integer', min_occurs=1)),
                   ('Integer(min_occurs=1,nillable=False)', T('Integer', min_occurs=1, nillable=False)),
                   ('Mandatory(Integer)', ['m', T('Integer')]), ('Mandatory(Unicode)', ['m', T('Unicode')]),
                   ('Unicode(nillable=False)', T('Unicode', nillable=False)), ('Date(min_occurs=1,nillable=False)', T('Date', min_occurs=1, nillable=False)),
                   # object-valued slots
                   ('Obj()', ['c', 'Q', {}]), ('Obj(nillable=False)', ['c', 'Q', {'nillable': False}]), ('Obj(min_occurs=1)', ['c', 'Q', {'min_occurs': 1}]),
                   ('Obj(min_occurs=1,nillable=False)', ['c', 'Q', {'min_occurs': 1, 'nillable': False}])]:
        base = validity.base_of(t)[1]
        ok = {'Integer': 5, 'Unicode': 'x', 'Date': _dt.date(2000, 1, 1), 'Q': Obj('Q', q=1, qs='s')}[base]
        vals = [('value', ok), ('absent', Absent), ('nil', Nil)]
        if base == 'Unicode':
            vals.append(('empty', ''))
        add(fid, t, vals)
    # a declared default does not make a non-nillable slot nillable (what an ABSENT member with a default hands to the
    # function is not part of the property: not sent; a mandatory member with a default is a contradiction XSD cannot
    # express for attributes - use="required" excludes default= - and is not generated)
    for fid, t in [('Integer(nillable=False,default)', T('Integer', nillable=False, default=7)),
                   ('Unicode(nillable=False,default)', T('Unicode', nillable=False, default='dflt')),
                   ('Integer(ge,default)', T('Integer', ge=3, nillable=False, default=7))]:
        ok = 'x' if t[1] == 'Unicode' else 5
        add(fid, t, [('value', ok), ('nil', Nil)] + ([('below', 2)] if 'ge' in t[2] else []))
    return F


def _lattices(tier):
    out = [('Integer', (0, 2), (5, 7), int, list(range(-2, 10)))]
    if tier == 'thorough':
        out.append(('Decimal', (0, 2), (5, 7), D, [D(x) / 2 for x in range(-3, 18)]))
        out.append(('Date', (0, 2), (5, 7), lambda x: _dt.date(2000, 1, 10) + _dt.timedelta(days=int(x)), list(range(-2, 10))))
        out.append(('Double', (0, 2), (5, 7), float, [x / 2.0 for x in range(-3, 18)]))
    return out


def occurrence_types():
    out = []
    for mn in (0, 1, 2):
        for mx in (1, 2, 3, 'unbounded'):
            if mx != 'unbounded' and mx < mn:
                continue
            out.append(('Integer(min_occurs=%s,max_occurs=%s)' % (mn, mx), T('Integer', min_occurs=mn, max_occurs=mx), mn, mx))
    # a repeated member whose declared default is the empty list (the requests of a shard follow each other on one
    # application: what one request carried must not be there for the next)
    out.append(('Integer(max_occurs=unbounded,default=[])', T('Integer', min_occurs=0, max_occurs='unbounded', default=[]), 0, 'unbounded'))
    return out


POSITIONS = ['arg', 'field', 'array', 'xmlattr', 'inherited']


def bounds(tier):
    return {'facets': len(facets(tier)), 'occurrence_types': len(occurrence_types()), 'positions': POSITIONS, 'families': FAMILIES,
            'int8_exhaustive_plus_minus_16': True, 'int16_exhaustive': tier == 'thorough'}


def shards(tier):
    out = []
    for i, (fid, t, vals) in enumerate(facets(tier)):
        for pos in POSITIONS:
            if pos == 'array' and t[0] == 'm':
                continue
            if len(vals) > 2000:
                for part in range(8):
                    out.append({'kind': 'facet', 'i': i, 'fid': fid, 'pos': pos, 'tier': tier, 'part': part, 'parts': 8})
            else:
                out.append({'kind': 'facet', 'i': i, 'fid': fid, 'pos': pos, 'tier': tier})
    for j, (fid, t, mn, mx) in enumerate(occurrence_types()):
        for pos in ('seq-arg', 'seq', 'seq-inherited', 'arr-arg', 'arr', 'arr-inherited'):
            out.append({'kind': 'occ', 'j': j, 'fid': fid, 'pos': pos, 'tier': tier})
    for fam in FAMILIES:
        for first in range(len(VARIANT_OPS)):
            out.append({'kind': 'variants', 'family': fam, 'first': first, 'tier': tier})
    return out


def variants_program():
    """a class and a customised variant of it (child_attrs tightening one member) used by two methods of one application"""
    U_, I_ = ['p', 'Unicode', {}], ['p', 'Integer', {}]
    Item = {'n': 'Item', 'fields': [['name', U_], ['note', U_], ['qty', I_]]}
    strict = ['c', 'Item', {'child_attrs': {'note': {'min_occurs': 1}, 'qty': {'ge': 1}}}]
    ms = [{'n': 'put_draft', 'args': [['i', ['c', 'Item', {}]]], 'ret': I_}, {'n': 'put_final', 'args': [['i', strict]], 'ret': I_}]
    return {'tns': universe.TNS, 'classes': [Item], 'services': [{'n': 'S', 'methods': ms}]}


# (method, value, reference verdict)
VARIANT_OPS = [('put_draft', Obj('Item', name='n', note=None, qty=None), True), ('put_draft', Obj('Item', name='n', note='x', qty=0), True),
               ('put_final', Obj('Item', name='n', note=None, qty=5), False), ('put_final', Obj('Item', name='n', note='x', qty=5), True),
               ('put_final', Obj('Item', name='n', note='x', qty=0), False)]


def run_variants(shard, res, only=None):
    import itertools
    program = variants_program()
    res['cov']['programs'] += 1
    fam = shard['family']
    for hist in itertools.product(range(len(VARIANT_OPS)), repeat=3):
        if hist[0] != shard['first']:
            continue
        key = list(hist)
        if only is not None and only != key:
            continue
        h = make_harness(program, fam)
        res['evaluations'] += 1
        good = True
        for step, oi in enumerate(hist):
            mname, v, exp = VARIANT_OPS[oi]
            oc, detail, req = send(h, fam, mname, [v], ['c', 'Item', {}])
            if oc == 'skip':
                continue
            want = 'accept' if exp else 'reject'
            if oc != want:
                res['violations'].append({'sig': 'C05|variants|%s|%s>%s|%s|%s' % (mname, want, oc, 'first-call' if step == 0 else 'later-call', fam),
                                          'what': '[%s soft] history %s on one application: step %d %s(%r): reference verdict %s, observed %s (%s); request=%r' % (
                                              fam, [VARIANT_OPS[i][:2] for i in hist], step, mname, v, want, oc, detail if oc != 'accept' else 'function ran', req if req is None else req[:300]),
                                          'case': {'variants': True, 'shard': shard, 'only': key}, 'count': 1})
                good = False
                break
        if good:
            res['nontrivial'] += 1
        res['outcomes']['variant-history'] = res['outcomes'].get('variant-history', 0) + 1


def make_harness(program, fam):
    if fam in ('xml', 'soap11'):
        h = harness.XmlHarness(program, fam, 'soft')
        h.codec.lenient = True
        return h
    if fam == 'http':
        return harness.HttpHarness(program, 'soft')
    return harness.DictHarness(program, fam, 'soft')


STRING_WIRE = ('Decimal', 'DateTime', 'Date', 'Time', 'Duration', 'Uuid', 'ByteArray', 'Unicode', 'AnyUri')


def contains(v, pred):
    if pred(v):
        return True
    if isinstance(v, Obj):
        return any(contains(x, pred) for x in v.f.values())
    if isinstance(v, (list, tuple)):
        return any(contains(x, pred) for x in v)
    if isinstance(v, Repeat):
        return any(contains(x, pred) for x in v.values)
    return False


def send(h, fam, mname, args, slot_t):
    """-> (outcome, detail, request repr) ; outcome in accept / reject / skip / other"""
    b = h.b
    m = b.methods[mname]
    base = validity.base_of(slot_t)
    try:
        if fam in ('xml', 'soap11'):
            req = xsdcodec.build_request(h.codec, m, args, fam)
            o = h.call_raw(mname, req, None)
        elif fam == 'http':
            pairs = []
            for (an, at), v in zip(m['args'], args):
                pairs += httpcodec.flatten(b, an, at, v, lenient=True)
            req = httpcodec.query_string(pairs)
            o = h.get(mname, req)
        else:
            if contains(args, lambda x: isinstance(x, Raw)) and not (base[0] == 'e' or base[1] in STRING_WIRE):
                return 'skip', 'raw-literal-in-a-typed-slot', None
            if contains(args, lambda x: isinstance(x, Repeat)):
                return 'skip', 'cannot-repeat-a-key', None
            if fam == 'msgpack' and base[1] == 'ByteArray' and not (base[2] or {}).get('encoding') and contains(args, lambda x: isinstance(x, Raw)):
                return 'skip', 'msgpack-bin-has-no-lexical-form', None
            req = h.codec.request_bytes(m, args)
            o = h.call_raw(mname, req, None)
    except (xsdcodec.NotDenotable, httpcodec.NotDenotable, dictcodec.NotDenotable) as e:
        return 'skip', 'not-denotable', None
    except xsdcodec.SchemaError as e:
        return 'skip', 'schema-error', None
    calls = h.captured(mname)
    if o.escaped is not None:
        return 'other', 'escape:%s@%s' % (type(o.escaped).__name__, o.escaped_where), req
    if fam == 'http':
        status = (o.status or '')[:3]
        if status == '200':
            if len(calls) == 1:
                return 'accept', calls[0][1], req
            return 'other', 'status-200-but-%d-invocations' % len(calls), req
        body = (o.out or b'').decode('utf8', 'replace')
        code = body.split('\n', 1)[0]
        if calls:
            return 'other', 'fault-%s-after-running' % code, req
        if code.startswith('Client'):
            return 'reject', code, req
        return 'other', 'fault:%s(%s)' % (code, status), req
    if o.fault is not None:
        code = str(o.fault.faultcode)
        if calls:
            return 'other', 'fault-%s-after-running' % code, req
        if code.startswith('Client'):
            return 'reject', code, req
        return 'other', 'fault:%s' % code, req
    if len(calls) == 1:
        return 'accept', calls[0][1], req
    return 'other', 'no-fault-but-%d-invocations' % len(calls), req


def clean(v):
    """the value user code should see for an accepted request"""
    if v is Absent or v is Nil:
        return None
    if isinstance(v, Repeat):
        return [clean(x) for x in v.values]
    if isinstance(v, Obj):
        return Obj(v.cls, **{k: clean(x) for k, x in v.f.items()})
    if isinstance(v, list):
        return [clean(x) for x in v]
    return v


def expected_for(t, v, pos):
    """reference verdict for slot value v of declared type t"""
    if isinstance(v, Raw):
        return False
    if v is Absent:
        mn, _ = validity.occurs(t)
        return mn == 0
    if v is Nil:
        return validity.nillable(t)
    return validity.conforms(t, v, universe._EnumBuilt)


def run_shard(shard):
    res = {'evaluations': 0, 'nontrivial': 0, 'outcomes': {}, 'violations': [], 'samples': [], 'cov': {'programs': 0}, 'notes': {}}
    tier = shard['tier']
    if shard['kind'] == 'variants':
        run_variants(shard, res)
        from vf.props.c01 import compress
        return compress(res)
    if shard['kind'] == 'facet':
        fid, t, vals = facets(tier)[shard['i']]
        if 'part' in shard:
            vals = vals[shard['part']::shard['parts']]
        pos = shard['pos']
        cases = []
        for label, v in vals:
            if pos == 'xmlattr' and v is Nil:
                continue    # an attribute cannot be nil
            if pos == 'array':
                if v is Absent:
                    continue
                slot = [v] if v is not Nil else [None]
                exp = expected_for(t, v, pos) if v is not Nil else validity.nillable(t)
                mn = validity.attrs_of(t).get('min_occurs', 0)
            else:
                slot = v
                exp = expected_for(t, v, pos)
            cases.append((label, v, slot, exp))
    else:
        fid, t, mn, mx = occurrence_types()[shard['j']]
        pos = shard['pos']
        top = 5 if mx == 'unbounded' else mx + 2
        cases = []
        single = [t[0], t[1], {k: v for k, v in t[2].items() if k != 'max_occurs'}]
        if pos.startswith('arr'):
            # the bounds sit on the element type of an Array: an array sent explicitly with n members (the empty
            # one included), and no array at all (the array member itself is optional)
            top = 5 if mx in ('unbounded', 1) else mx + 2
            for n in range(0, top + 1):
                vs = list(range(1, n + 1))
                cases.append(('array-of:%d' % n, vs, vs, n >= mn and (mx in ('unbounded', 1) or n <= mx)))
            # (with a lower bound on the members, whether NO array is "zero members" (the dict families, HttpRpc) or
            # "nothing to count" (the XML families, the published schema) is not settled by the property: not compared)
            if mn == 0:
                cases.append(('array-absent', [], Absent, True))
            t = ['a', t, {}]
            top = -1
        for n in range(0, top + 1):
            vs = list(range(1, n + 1))
            if mx == 1:
                slot = Absent if n == 0 else (vs[0] if n == 1 else Repeat(vs))
            else:
                slot = vs if n else Absent
            exp = n >= mn and (mx == 'unbounded' or n <= mx)
            cases.append(('count:%d' % n, vs, slot, exp))
    upos = {'array': 'array', 'arg': 'arg', 'field': 'field', 'xmlattr': 'xmlattr', 'seq': 'field', 'seq-arg': 'arg', 'inherited': 'inherited',
            'seq-inherited': 'inherited', 'arr-arg': 'arg', 'arr': 'field', 'arr-inherited': 'inherited'}[pos]
    program = universe.program_for(t, upos)
    if program is None:
        return res
    res['cov']['programs'] += 1
    mname = 'm'
    fams = [f for f in FAMILIES if not (pos == 'xmlattr' and f not in ('xml', 'soap11'))]
    if isinstance(validity.attrs_of(t).get('default'), list) or (t[0] == 'a' and isinstance(validity.attrs_of(t[1]).get('default'), list)):
        # (a list-valued default cannot be written into an XML Schema: the type is used with the dict documents and HttpRpc)
        fams = [f for f in fams if f not in ('xml', 'soap11')]
    hs = {}
    for fam in fams:
        try:
            hs[fam] = make_harness(program, fam)
        except Exception as e:
            res['violations'].append({'sig': 'C05|build|%s|%s|%s' % (fid, fam, type(e).__name__), 'what': 'cannot build: %r' % (e,),
                                      'case': {'shard': shard, 'build_only': True}, 'count': 1})
    seen = set()
    for label, v, slot, exp in cases:
        args, ret, ih, oh = universe.embed(upos, t, slot)
        vector = {}
        for fam, h in hs.items():
            oc, detail, req = send(h, fam, mname, args, t)
            res['evaluations'] += 1
            key = '%s:%s' % (oc, 'exp-accept' if exp else 'exp-reject') if oc != 'skip' else 'skip:' + str(detail)
            res['outcomes'][key] = res['outcomes'].get(key, 0) + 1
            if oc == 'skip':
                continue
            vector[fam] = oc
            k = (fam, label, json.dumps(tagged.enc(v), sort_keys=True, default=str))
            if k not in seen:
                seen.add(k)
                res['nontrivial'] += 1
            want = 'accept' if exp else 'reject'
            casedoc = {'shard': shard, 'label': label, 'value': tagged.enc(v), 'family': fam}
            short = label.split(':')[0] if label.startswith(('num', 'len', 'dec', 'dbl', 'date', 'dt', 'time', 'count')) and shard['kind'] == 'facet' and len(cases) > 40 else label
            if oc == 'accept' and want == 'accept':
                if not tagged.equal(clean(args), detail):
                    res['violations'].append({'sig': 'C05|%s|%s|accepted-with-different-value|%s' % (fid, short, fam),
                                              'what': '[%s soft, %s] %s sent %r, function received %r; request=%r' % (fam, pos, fid, args, detail, req if req is None else req[:300]),
                                              'case': casedoc, 'count': 1})
                continue
            if oc == want:
                continue
            got = oc if oc != 'other' else detail
            res['violations'].append({'sig': 'C05|%s|%s|%s>%s|%s' % (fid, short, want, got, fam),
                                      'what': '[%s soft, %s] %s value %r: reference verdict %s, observed %s (%s); request=%r' % (
                                          fam, pos, fid, v, want, oc, detail if oc != 'accept' else 'function ran', req if req is None else req[:300]),
                                      'case': casedoc, 'count': 1})
    if cases:
        res['samples'].append({'facet': fid, 'pos': pos, 'type': t, 'value': tagged.enc(cases[len(cases) // 2][1]), 'expected_accept': cases[len(cases) // 2][3]})
    from vf.props.c01 import compress
    return compress(res)


def replay(case):
    shard = dict(case['shard'])
    if case.get('build_only'):
        r = run_shard(shard)
        return [v for v in r['violations'] if '|build|' in v['sig']]
    shard.pop('part', None)
    r = run_shard(shard)
    # compress() keeps one per signature; re-run is deterministic, so signatures recur
    return r['violations']
