"""C10 - hostile or malformed requests end in a client fault, never a crash.

Deviation-bounded exhaustive enumeration (E1): a corpus of valid requests (atoms x positions x protocols);
deviation 0 = the valid request; deviation 1 = EVERY prefix truncation, every leaf text replaced by every item of a
corruption alphabet, every element/key deleted, duplicated, renamed to an unknown member, every value replaced by a
wrong kind, one nesting level added or removed, empty body / envelope / document, all 256 one-byte documents and all
two-byte documents over a structural alphabet; (thorough) deviation 2 = all pairs of structural mutations on a reduced
corpus.  x every input protocol x validator x {ServerBase, WsgiApplication}.  Oracle: nothing escapes, the outcome is a
normal response or a decodable fault of the Client family (4xx over HTTP for non-SOAP), never a Server fault, and the
function did not run when a fault is returned."""
import copy
import itertools
import json

from lxml import etree

from vf import tagged, harness, spec, drv, universe
from vf.ref import xsdcodec, dictcodec, httpcodec, validity
from vf.props import c04

ID = 'C10'
LEVEL = 'exploration'
RULE = ('every deviation-1 (thorough: also deviation-2) mutation of every corpus request x configuration x transport, plus all '
        'documents of <= 2 bytes over the structural alphabet; non-trivial when the mutated bytes differ from the valid request; '
        'distinct by (corpus entry, configuration, transport, mutation)')
ASSUMPTIONS = ['"all byte strings" is covered as all truncations, all single (double) structural deviations and all <= 2-byte documents',
               'a fault document is decodable when the reference fault decoder of its protocol can parse it']
FLOOR = {'quick': 20000, 'thorough': 200000}

CORRUPT = ['', ' ', 'x', '-', '1e400', '99999999999999999999', '2020-13-01', '9' * 2048, 'true', '2020-01-02', 'PT1S', 'é\U0001F600',
           '-0', '0x10', '1,5', 'NaN', 'null', '{}', '[]', '<a/>', '&amp;',
           # long literals (error paths that abbreviate what they report): mis-padded, outside every alphabet
           'A' * 101, 'ab' * 75 + '=', '!' * 120,
           # printf-like directives (error paths that build their message with %)
           '1%s', '%d%d', '100%', '%(x)s']
CONTENT_TYPES = ['<absent>', '', ';', 'BASE', 'BASE;', 'BASE; charset', 'BASE; charset=', 'BASE; charset="utf-8', 'BASE; charset="utf-8"', 'BASE; =utf-8',
                 'BASE; charset=utf-8; charset=latin-1', 'BASE; charset=no-such-charset', 'BASE; x', 'BASE; x=1; y', 'BASE; type="a;b"', 'BASE;;;',
                 'BASE ; charset = utf-8', 'BASE; CHARSET=UTF-8', 'multipart/related', 'multipart/related; boundary', 'multipart/related; boundary=',
                 'multipart/related; boundary=x; type="a;b"', 'multipart/form-data; boundary', 'text', '/', 'a/b/c', 'BASE\t; charset=utf-8', 'BASE; ' + 'p=1; ' * 200 + 'q']
STRUCT_ALPHABET = b'<>/="\'{}[]:,&;?! \n\x00\xff\x80aA0-.'


def corpus_atoms(tier):
    ids = ['Integer', 'Byte', 'Decimal', 'Double', 'Boolean', 'Unicode', 'Uuid', 'DateTime', 'Date', 'Time', 'Duration',
           'ByteArray', 'ByteArray(hex)', 'ByteArray(urlsafe_base64)', 'Enum', 'Integer(ge,le)', 'Unicode(pattern)', 'Mandatory(Integer)']
    if tier == 'quick':
        ids = ['Integer', 'Decimal', 'Double', 'Boolean', 'Unicode', 'DateTime', 'Duration', 'ByteArray', 'ByteArray(hex)', 'ByteArray(urlsafe_base64)', 'Enum',
               'Mandatory(Integer)']
    return ids


POSITIONS = ['field', 'array', 'arg']


def configs(tier):
    out = []
    for proto in ('xml', 'soap11', 'soap12'):
        for val in (None, 'soft', 'lxml'):
            out.append(('xml', dict(proto=proto, validator=val)))
    for wire in ('json', 'yaml', 'msgpack', 'msgpackrpc'):
        for val in (None, 'soft'):
            out.append(('dict', dict(wire=wire, validator=val)))
    for val in (None, 'soft'):
        out.append(('http', dict(validator=val)))
    # applications whose output protocol is of another family than the input protocol (the fault travels in the output
    # protocol's format and takes its HTTP status rule)
    out.append(('xml', dict(proto='soap11', validator='soft', out='json')))
    out.append(('xml', dict(proto='xml', validator=None, out='soap11')))
    out.append(('dict', dict(wire='json', validator='soft', out='soap11')))
    out.append(('dict', dict(wire='yaml', validator=None, out='xml')))
    return out


def bounds(tier):
    return {'corpus_atoms': corpus_atoms(tier), 'positions': POSITIONS, 'configurations': len(configs(tier)), 'transports': ['ServerBase', 'WsgiApplication'],
            'deviation': 1 if tier == 'quick' else 2, 'corruption_alphabet': len(CORRUPT), 'tiny_documents': 256 + len(STRUCT_ALPHABET) ** 2}


def shards(tier):
    out = []
    for aid in corpus_atoms(tier):
        for pos in POSITIONS:
            at = c01_atom(aid)
            if universe.program_for(at, pos) is None:
                continue
            for ci in range(len(configs(tier))):
                out.append({'kind': 'corpus', 'atom': aid, 'pos': pos, 'ci': ci, 'tier': tier})
    for ci in range(len(configs(tier))):
        out.append({'kind': 'tiny', 'ci': ci, 'tier': tier})
    return out


def c01_atom(aid):
    from vf.props.c01 import atom_by_id
    return atom_by_id(aid)


# ------------------------------------------------------------------ runners

class Runner(object):
    """uniform view of one (harness, transport)"""

    def __init__(self, fam, h, transport):
        self.fam, self.h, self.transport = fam, h, transport
        self.wsgi = None
        if transport == 'wsgi' or fam == 'http':
            if fam == 'http':
                self.wsgi = h.wsgi
            else:
                from spyne.server.wsgi import WsgiApplication
                self.wsgi = WsgiApplication(h.app)

    @property
    def label(self):
        h = self.h
        o = ',out=%s' % h.out_name if getattr(h, 'out_name', None) else ''
        if self.fam == 'xml':
            return '%s,validator=%s%s' % (h.proto, h.validator, o)
        if self.fam == 'dict':
            return '%s,validator=%s%s' % (h.wire, h.validator, o)
        return 'http,validator=%s' % h.validator

    @property
    def family(self):
        h = self.h
        return h.proto if self.fam == 'xml' else h.wire if self.fam == 'dict' else 'http'

    def run(self, data, content_type=None):
        """data: bytes (body) or str (query string for http).  -> dict"""
        h = self.h
        b = h.b
        b.rec.reset()
        b.rec.script['m'] = ('ret', None)
        r = {'escaped': None, 'where': None, 'code': None, 'entered': 0, 'status': None, 'out': None, 'stage': None}
        if self.fam == 'http':
            env = drv.environ('GET', '/m', data, b'', content_type=None, content_length=None)
            o = drv.call_wsgi(self.wsgi, env)
        elif self.transport == 'wsgi':
            ct = {'xml': 'text/xml; charset=utf-8', 'soap11': 'text/xml; charset=utf-8', 'soap12': 'application/soap+xml; charset=utf-8',
                  'json': 'application/json', 'yaml': 'text/yaml', 'msgpack': 'application/x-msgpack', 'msgpackrpc': 'application/x-msgpack'}[self.family]
            env = drv.environ('POST', '/', '', data, content_type=ct if content_type is None else content_type)
            if content_type == '<absent>':
                env.pop('CONTENT_TYPE', None)
            o = drv.call_wsgi(self.wsgi, env)
        else:
            o = drv.call_server(h.srv, data)
        r['entered'] = len(b.rec.calls)
        r['stage'] = o.stage
        if o.escaped is not None:
            r['escaped'] = o.escaped
            r['where'] = o.escaped_where
            return r
        r['out'] = o.out
        if self.wsgi is not None and (self.transport == 'wsgi' or self.fam == 'http'):
            r['status'] = (o.status or '')[:3]
            r['code'] = self.decode_fault(o.out) if not r['status'].startswith('2') else None
            if not r['status'].startswith('2') and r['code'] is None:
                r['code'] = '?undecodable'
            if o.start_calls != 1:
                r['code'] = '?start_response-called-%d-times' % o.start_calls
        else:
            if o.fault is not None:
                c = self.decode_fault(o.out)
                r['code'] = c if c is not None else '?undecodable'
                r['ctx_code'] = str(o.fault.faultcode)
        return r

    @property
    def out_family(self):
        return getattr(self.h, 'out_name', None) or self.family

    def decode_fault(self, out):
        if out is None:
            return None
        oh = getattr(self.h, 'out_h', None)
        if oh is not None:
            # the fault is written by the output protocol: decode it with that family's decoder
            sub = Runner('xml' if hasattr(oh, 'proto') else 'dict', oh, 'server')
            return sub.decode_fault(out)
        try:
            if self.fam == 'http':
                return out.decode('utf8', 'replace').split('\n', 1)[0] or None
            if self.fam == 'xml':
                root = etree.fromstring(out)
                env = xsdcodec.envelope_ns(self.h.proto)
                el = root
                if env:
                    body = root.find(xsdcodec.q(env, 'Body'))
                    el = body[0] if body is not None and len(body) else None
                if el is None or etree.QName(el).localname != 'Fault':
                    return None
                f = xsdcodec.parse_fault(el)
                code = f.code or ''
                if ':' in code:
                    code = code.split(':', 1)[1]
                if self.h.proto == 'soap12':
                    code = {'Sender': 'Client', 'Receiver': 'Server'}.get(code, code)
                    if f.subcodes:
                        code = code + '.' + '.'.join(str(x) for x in f.subcodes)
                return code
            d = self.h.codec.loads(out)
            f = self.h.codec.fault_of(d)
            return None if f is None else f.code
        except Exception:
            return None


def verdict(r, runner, mutated, res, casedoc, mkind):
    """oracle for one run; appends violations; returns outcome label"""
    fam = runner.family

    def V(kind, detail, what):
        res['violations'].append({'sig': 'C10|%s|%s|%s|%s' % (kind, fam, mkind, detail),
                                  'what': '[%s %s] %s; request=%r' % (runner.label, runner.transport, what, mutated[:300]),
                                  'case': casedoc, 'count': 1})
    if r['escaped'] is not None:
        V('escape', '%s@%s' % (type(r['escaped']).__name__, r['where']), 'exception escaped at stage %s: %r' % (r['stage'], r['escaped']))
        return 'escape'
    if r['entered'] > 1:
        V('entered-many', str(r['entered']), 'function entered %d times' % r['entered'])
        return 'entered-many'
    code = r['code']
    if code is None:
        if r['status'] is not None and not r['status'].startswith('2'):
            V('status-without-fault', r['status'], 'HTTP %s without a fault document' % r['status'])
            return 'status-without-fault'
        return 'response' if r['entered'] else 'response-without-call'
    if code.startswith('?'):
        V('fault-undecodable', code, 'fault document cannot be decoded (%s): %r' % (code, (r['out'] or b'')[:200]))
        return 'fault-undecodable'
    if r['entered']:
        V('fault-after-running', code.split('.')[0], 'function ran and the answer is a %s fault' % code)
        return 'fault-after-running'
    if not (code == 'Client' or code.startswith('Client.')):
        V('non-client-fault', code[:40], 'malformed request answered with a %s fault' % code)
        return 'non-client-fault'
    if r['status'] is not None:
        soap = runner.out_family in ('soap11', 'soap12')
        if soap and r['status'] == '405' and code == 'Client.RequestNotAllowed':
            # (SOAP over HTTP: a request that is not a POST with a Content-Type is refused at the HTTP level; the property
            # fixes the status class for the non-SOAP protocols only)
            return 'client-fault'
        if soap and r['status'] != '500':
            V('http-status', 'soap-%s' % r['status'], 'SOAP fault sent with HTTP %s' % r['status'])
            return 'http-status'
        if not soap and not r['status'].startswith('4'):
            V('http-status', '%s-for-%s' % (r['status'], code[:30]), 'Client fault %s sent with HTTP %s' % (code, r['status']))
            return 'http-status'
    return 'client-fault'


# ------------------------------------------------------------------ mutation generators

def multipart_mutations(envelope):
    root = [b'Content-Type: text/xml; charset=utf-8', b'Content-ID: <root>']
    att = [b'Content-Type: application/octet-stream', b'Content-ID: <att1>', b'Content-Transfer-Encoding: base64', b'Content-Location: att1.bin']

    def build(root_h, att_h, parts=('root', 'att'), payload=b'QUJD', close=True):
        out = b''
        for p_ in parts:
            hs, bd = (root_h, envelope) if p_ == 'root' else (att_h, payload)
            out += b'--VFB\r\n' + b''.join(x + b'\r\n' for x in hs) + b'\r\n' + bd + b'\r\n'
        return out + (b'--VFB--\r\n' if close else b'')
    valid = build(root, att[:3])
    yield 'valid', valid
    for i in range(len(valid)):
        yield 'truncate#%d' % i, valid[:i]
    for which, hs in (('root', root), ('att', att)):
        for i in range(len(hs)):
            rest = hs[:i] + hs[i + 1:]
            yield 'drop-header#%s:%d' % (which, i), build(rest if which == 'root' else root, rest if which == 'att' else att[:3])
            emptied = hs[:i] + [hs[i].split(b':')[0] + b':'] + hs[i + 1:]
            yield 'empty-header#%s:%d' % (which, i), build(emptied if which == 'root' else root, emptied if which == 'att' else att[:3])
    yield 'location-only', build(root, [att[0], att[3]])
    yield 'no-headers', build(root, [])
    yield 'binary-payload', build(root, att[:2], payload=b'\x00\xff\xfe raw')
    yield 'not-base64', build(root, att[:3], payload=b'!!!!')
    for parts in (('att',), ('root',), ('att', 'root'), ('root', 'att', 'att'), ('root', 'root'), ()):
        yield 'parts#' + '+'.join(parts), build(root, att[:3], parts=parts)
    yield 'unclosed', build(root, att[:3], close=False)


def truncations(data):
    for n in range(len(data)):
        yield 'truncate', 'len=%d' % n, data[:n]


def xml_structural(req, proto):
    """(kind, label, bytes) single structural mutations of an XML request"""
    root = etree.fromstring(req)
    elems = [e for e in root.iter() if isinstance(e.tag, str)]
    member_names = sorted(set(etree.QName(x).localname for x in elems))[:6]
    for idx, e in enumerate(elems):
        name = etree.QName(e).localname
        parent = e.getparent()
        # leaf text corruption
        if len(e) == 0:
            old = e.text
            for c in CORRUPT:
                e.text = c
                yield 'leaf-text', '%s#%d=%r' % (name, idx, c[:12]), etree.tostring(root)
            e.text = old
        for k in list(e.attrib):
            v = e.attrib[k]
            for c in CORRUPT[:8]:
                e.set(k, c)
                yield 'attr-text', '%s@%s=%r' % (name, etree.QName(k).localname, c[:12]), etree.tostring(root)
            del e.attrib[k]
            yield 'attr-delete', '%s@%s' % (name, etree.QName(k).localname), etree.tostring(root)
            e.set(k, v)
        e.set('{%s}nil' % xsdcodec.XSI, 'true')
        yield 'add-nil', '%s#%d' % (name, idx), etree.tostring(root)
        del e.attrib['{%s}nil' % xsdcodec.XSI]
        e.set('bogus', '1')
        yield 'add-attr', '%s#%d' % (name, idx), etree.tostring(root)
        del e.attrib['bogus']
        # SOAP 1.1 multi-reference attributes: a reference to nothing, and an element that refers to itself
        e.set('id', 'k1')
        others = [x for x in root.iter() if isinstance(x.tag, str) and x is not e and x is not root]
        if others:
            o_ = others[-1]
            o_.set('href', '#nosuch')
            yield 'add-href-dangling', '%s#%d' % (name, idx), etree.tostring(root)
            o_.set('href', '#k1')
            yield 'add-href-to-another-element', '%s#%d' % (name, idx), etree.tostring(root)
            del o_.attrib['href']
        kids = [c for c in e if isinstance(c.tag, str)]
        if kids:
            kids[0].set('href', '#k1')
            yield 'add-href-cycle', '%s#%d' % (name, idx), etree.tostring(root)
            del kids[0].attrib['href']
        del e.attrib['id']
        # an attribute named like a member (element) of the document
        for an in member_names:
            if an in e.attrib:
                continue
            e.set(an, 'x')
            yield 'add-attr-named-like-member', '%s#%d@%s' % (name, idx, an), etree.tostring(root)
            del e.attrib[an]
        # nodes that are neither elements nor text, as first child: an unexpanded entity reference, a comment, a PI
        for nk, node in (('entity-ref', etree.Entity('vfent')), ('comment', etree.Comment(' c ')), ('pi', etree.ProcessingInstruction('vf', 'x'))):
            e.insert(0, node)
            doc = etree.tostring(root)
            if nk == 'entity-ref':
                rq = etree.QName(root)
                doc = ('<!DOCTYPE %s [<!ENTITY vfent "ent">]>' % ((root.prefix + ':' if root.prefix else '') + rq.localname)).encode() + doc
            yield 'add-' + nk + '-node', '%s#%d' % (name, idx), doc
            e.remove(node)
        if parent is not None:
            pos = list(parent).index(e)
            parent.remove(e)
            yield 'delete', '%s#%d' % (name, idx), etree.tostring(root)
            parent.insert(pos, e)
            dup = copy.deepcopy(e)
            parent.insert(pos, dup)
            yield 'duplicate', '%s#%d' % (name, idx), etree.tostring(root)
            parent.remove(dup)
            oldtag = e.tag
            e.tag = etree.QName(etree.QName(e).namespace, 'NoSuchMember').text if etree.QName(e).namespace else 'NoSuchMember'
            yield 'rename', '%s#%d' % (name, idx), etree.tostring(root)
            e.tag = etree.QName(None, name).text
            yield 'unqualify', '%s#%d' % (name, idx), etree.tostring(root)
            e.tag = '{urn:other:ns}' + name
            yield 'other-ns', '%s#%d' % (name, idx), etree.tostring(root)
            e.tag = oldtag
            # nesting: wrap in an extra level / replace by its children
            wrapper = etree.Element(oldtag)
            parent.remove(e)
            wrapper.append(e)
            parent.insert(pos, wrapper)
            yield 'nest-add', '%s#%d' % (name, idx), etree.tostring(root)
            parent.remove(wrapper)
            kids = list(e)
            for i, kd in enumerate(kids):
                parent.insert(pos + i, kd)
            yield 'nest-remove', '%s#%d' % (name, idx), etree.tostring(root)
            for kd in kids:
                parent.remove(kd)
                e.append(kd)
            parent.insert(pos, e)
        child = etree.SubElement(e, 'junk')
        child.text = 'x'
        yield 'add-child', '%s#%d' % (name, idx), etree.tostring(root)
        e.remove(child)
        if len(e):
            saved = list(e)
            for kd in saved:
                e.remove(kd)
            yield 'empty-element', '%s#%d' % (name, idx), etree.tostring(root)
            e.text = 'text-instead-of-children'
            yield 'text-for-children', '%s#%d' % (name, idx), etree.tostring(root)
            e.text = None
            for kd in saved:
                e.append(kd)
    yield 'doc', 'empty', b''
    yield 'doc', 'whitespace', b'  \n'
    yield 'doc', 'not-xml', b'hello'
    yield 'doc', 'invalid-utf8', req.replace(b'>', b'>\xff\xfe', 1)
    yield 'doc', 'latin1-declared', b"<?xml version='1.0' encoding='latin-1'?>" + req.split(b'?>', 1)[-1]
    yield 'doc', 'two-roots', req + req.split(b'?>', 1)[-1]
    yield 'doc', 'bom', b'\xef\xbb\xbf' + req
    yield 'doc', 'doctype', b'<!DOCTYPE a [<!ENTITY e "x">]>' + req.split(b'?>', 1)[-1]
    yield 'doc', 'json-instead', b'{"m": {}}'


def dict_structural(doc):
    """(kind, label, doc2) single structural mutations of a python document"""
    for label, sigp, d2 in c04.dict_mutations(doc, set()):
        yield 'kind', label, d2
    paths = []

    def walk(node, path):
        paths.append(path)
        if isinstance(node, dict):
            for k in list(node.keys()):
                walk(node[k], path + [k])
        elif isinstance(node, (list, tuple)):
            for i in range(len(node)):
                walk(node[i], path + [i])
    walk(doc, [])

    def get(d, path):
        for p in path:
            d = d[p]
        return d
    for path in paths:
        if not path:
            continue
        cur = get(doc, path)
        pstr = '/'.join(str(p) for p in path)
        if isinstance(cur, (str, bytes)) or (isinstance(cur, (int, float)) and not isinstance(cur, bool)):
            for c in CORRUPT:
                d2 = copy.deepcopy(doc)
                par = get(d2, path[:-1])
                par[path[-1]] = c
                yield 'leaf-text', '%s=%r' % (pstr, c[:12]), d2
            for c in (10 ** 400, -(10 ** 400), 1e308 * 10, float('nan'), 0.1, -1):
                d2 = copy.deepcopy(doc)
                par = get(d2, path[:-1])
                par[path[-1]] = c
                yield 'leaf-number', '%s=%r' % (pstr, str(c)[:12]), d2
        d2 = copy.deepcopy(doc)
        par = get(d2, path[:-1])
        if isinstance(par, dict):
            v = par.pop(path[-1])
            yield 'delete', pstr, d2
            d3 = copy.deepcopy(doc)
            par3 = get(d3, path[:-1])
            v3 = par3.pop(path[-1])
            par3['NoSuchMember'] = v3
            yield 'rename', pstr, d3
            # names made of characters an output document may not be able to carry (the name comes back in the fault text)
            for nm in ('m\x01', 'm\x00x', '\x1b[0m', '\ud800', 'm\ufffe', 'a' * 300, '<m>&amp;', ''):
                d9 = copy.deepcopy(doc)
                par9 = get(d9, path[:-1])
                par9[nm] = par9.pop(path[-1])
                yield 'rename-hostile-name', '%s>%r' % (pstr, nm[:6]), d9
            d4 = copy.deepcopy(doc)
            get(d4, path[:-1])['junk'] = 'x'
            yield 'add-key', pstr, d4
            # keys that are not strings (the binary and YAML formats can carry them): renamed to / added as
            for kk in (0, 1, 7, -1, 1.5, True, None, (1, 2)):
                d7 = copy.deepcopy(doc)
                par7 = get(d7, path[:-1])
                par7[kk] = par7.pop(path[-1])
                yield 'rename-nonstring-key', '%s>%r' % (pstr, kk), d7
                d8 = copy.deepcopy(doc)
                get(d8, path[:-1])[kk] = 2
                yield 'add-nonstring-key', '%s+%r' % (pstr, kk), d8
        elif isinstance(par, list):
            par.pop(path[-1])
            yield 'delete', pstr, d2
            d3 = copy.deepcopy(doc)
            par3 = get(d3, path[:-1])
            par3.insert(path[-1], copy.deepcopy(par3[path[-1]]))
            yield 'duplicate', pstr, d3
        d5 = copy.deepcopy(doc)
        par5 = get(d5, path[:-1])
        par5[path[-1]] = [par5[path[-1]]]
        yield 'nest-add-list', pstr, d5
        d6 = copy.deepcopy(doc)
        par6 = get(d6, path[:-1])
        par6[path[-1]] = {'x': par6[path[-1]]}
        yield 'nest-add-map', pstr, d6
    for label, d in [('empty-map', {}), ('empty-list', []), ('null', None), ('number', 5), ('text', 'm'), ('two-keys', dict(list(doc.items()) + [('other', {})]) if isinstance(doc, dict) else [doc, doc]),
                     ('list-of-doc', [doc]), ('nested-lists', [[[]]]), ('bool', True)]:
        yield 'doc', label, d


def http_structural(pairs):
    for label, sigp, p2 in c04.http_mutations(pairs):
        yield 'key', label, httpcodec.query_string(p2)
    for i, (k, v) in enumerate(pairs):
        for c in CORRUPT:
            p2 = list(pairs)
            p2[i] = (k, c)
            yield 'leaf-text', '%s=%r' % (k, c[:12]), httpcodec.query_string(p2)
        p2 = list(pairs)
        del p2[i]
        yield 'delete', k, httpcodec.query_string(p2)
        p2 = list(pairs)
        p2[i] = ('NoSuchMember', v)
        yield 'rename', k, httpcodec.query_string(p2)
    q = httpcodec.query_string(pairs)
    yield 'raw', 'bad-percent', q + '&a=%zz'
    yield 'raw', 'truncated-percent', q + '&a=%2'
    yield 'raw', 'invalid-utf8', q + '&a=%ff%fe'
    yield 'raw', 'no-equals', q + '&novalue'
    yield 'raw', 'empty-key', q + '&=5'
    yield 'raw', 'only-ampersands', '&&&'
    yield 'raw', 'empty', ''
    yield 'raw', 'brackets', q + '&a[=1&a]=2&a[x]=3&a[-1]=4&a[99999999999999999999]=5'
    for n in range(len(q)):
        yield 'truncate', 'len=%d' % n, q[:n]


def corpus_entry(aid, pos, tier):
    at = c01_atom(aid)
    program = universe.program_for(at, pos)
    vals = universe.slot_values(pos, at, tier, 3)
    pick = None
    for label, v in vals:
        if v is not None and v != [] and v != '' and v != b'':
            pick = v
            break
    args, ret, ih, oh = universe.embed(pos, at, pick)
    return program, args


def make(fam, cfg, program):
    if fam == 'xml':
        h = harness.XmlHarness(program, cfg['proto'], cfg['validator'])
    elif fam == 'dict':
        h = harness.DictHarness(program, cfg['wire'], cfg['validator'])
    else:
        return harness.HttpHarness(program, cfg['validator'])
    if cfg.get('out'):
        on = cfg['out']
        h.out_h = harness.XmlHarness(program, on, None, built=h.b) if on in ('xml', 'soap11', 'soap12') else harness.DictHarness(program, on, None, built=h.b)
        inp = harness.make_proto(cfg['proto'] if fam == 'xml' else cfg['wire'], cfg['validator'])
        h.app = spec.make_app(h.b, inp, harness.make_proto(on))
        h.srv = drv.make_server(h.app)
        h.out_name = on
    return h


def run_shard(shard, only=None):
    res = {'evaluations': 0, 'nontrivial': 0, 'outcomes': {}, 'violations': [], 'samples': [], 'cov': {'programs': 0, 'truncations': 0, 'structural': 0, 'pairs': 0, 'tiny': 0}, 'notes': {}}
    tier = shard['tier']
    fam, cfg = configs(tier)[shard['ci']]
    if shard['kind'] == 'tiny':
        program = universe.program_for(['p', 'Integer', {}], 'arg')
        h = make(fam, cfg, program)
        docs = [bytes([i]) for i in range(256)] + [bytes([a, b]) for a in STRUCT_ALPHABET for b in STRUCT_ALPHABET]
        for transport in (['wsgi'] if fam == 'http' else ['server', 'wsgi']):
            rn = Runner(fam, h, transport)
            for d in docs:
                data = d.decode('latin-1') if fam == 'http' else d
                if only is not None and only != [transport, 'tiny', d.hex()]:
                    continue
                r = rn.run(data)
                casedoc = {'shard': shard, 'only': [transport, 'tiny', d.hex()]}
                oc = verdict(r, rn, d, res, casedoc, 'tiny-document')
                res['evaluations'] += 1
                res['cov']['tiny'] += 1
                res['nontrivial'] += 1
                res['outcomes'][oc] = res['outcomes'].get(oc, 0) + 1
        # hostile values of the Content-Type header around a VALID body: parameters without '=', without a value, unbalanced
        # or semicolon-carrying quotes, repeated and unknown parameters, multipart types without their parameters
        if fam != 'http':
            rn = Runner(fam, h, 'wsgi')
            m = h.b.methods['m']
            valid = xsdcodec.build_request(h.codec, m, [5, 7], cfg['proto']) if fam == 'xml' else h.codec.request_bytes(m, [5, 7])
            base = {'xml': 'text/xml', 'soap11': 'text/xml', 'soap12': 'application/soap+xml', 'json': 'application/json', 'yaml': 'text/yaml',
                    'msgpack': 'application/x-msgpack', 'msgpackrpc': 'application/x-msgpack'}[rn.family]
            for ct in CONTENT_TYPES:
                ct = ct.replace('BASE', base)
                key = ['wsgi', 'content-type', ct]
                if only is not None and only != key:
                    continue
                r = rn.run(valid, content_type=ct)
                oc = verdict(r, rn, valid, res, {'shard': shard, 'only': key}, 'content-type')
                if oc == 'escape' or oc.startswith('non-client') or oc == 'fault-undecodable':
                    res['violations'][-1]['what'] = 'Content-Type %r: %s' % (ct, res['violations'][-1]['what'])
                res['evaluations'] += 1
                res['cov']['content_types'] = res['cov'].get('content_types', 0) + 1
                res['nontrivial'] += 1
                res['outcomes'][oc] = res['outcomes'].get(oc, 0) + 1
        # integer literals at and beyond the interpreter's digit limit for int <-> str conversion (4300), huge exponents,
        # in the text formats
        if fam == 'dict' and cfg.get('wire') in ('json', 'yaml'):
            valid = h.codec.request_bytes(h.b.methods['m'], [5, 7])
            needle = b'"a": 5' if cfg['wire'] == 'json' else b'a: 5'
            if needle in valid:
                for transport in ('server', 'wsgi'):
                    rn = Runner(fam, h, transport)
                    nests = [('[' * n + ']' * n) for n in (50, 1000, 100000)] + [('{"k": ' * n + '1' + '}' * n) for n in (50, 1000, 100000)] if cfg['wire'] == 'json' else \
                            [('[' * n + ']' * n) for n in (50, 1000, 20000)] + [('{k: ' * n + '1' + '}' * n) for n in (50, 1000)]
                    for lit in ['9' * 4300, '9' * 4301, '-' + '9' * 5000, '1' + '0' * 20000, '1e99999', '0.' + '0' * 5000 + '1', '9' * 400] + nests:
                        body = valid.replace(needle, needle[:-1] + lit.encode())
                        key = [transport, 'huge-number', '%s..(%d)' % (lit[:6], len(lit))]
                        if only is not None and only != key:
                            continue
                        r = rn.run(body)
                        oc = verdict(r, rn, body[:200], res, {'shard': shard, 'only': key}, 'huge-number')
                        res['evaluations'] += 1
                        res['nontrivial'] += 1
                        res['outcomes'][oc] = res['outcomes'].get(oc, 0) + 1
        # SOAP with attachments: a multipart/related body (root envelope + one attachment) - every truncation, every part
        # header line deleted / emptied, parts dropped or doubled
        if fam == 'xml' and cfg['proto'] in ('soap11', 'soap12'):
            rn = Runner(fam, h, 'wsgi')
            valid = xsdcodec.build_request(h.codec, h.b.methods['m'], [5, 7], cfg['proto'])
            for label, body in multipart_mutations(valid):
                key = ['wsgi', 'multipart', label]
                if only is not None and only != key:
                    continue
                r = rn.run(body, content_type='multipart/related; boundary=VFB; start="<root>"; type="text/xml"')
                oc = verdict(r, rn, body, res, {'shard': shard, 'only': key}, 'multipart:' + label.split('#')[0])
                res['evaluations'] += 1
                res['cov']['multipart'] = res['cov'].get('multipart', 0) + 1
                res['nontrivial'] += 1
                res['outcomes'][oc] = res['outcomes'].get(oc, 0) + 1
        from vf.props.c01 import compress
        return compress(res)
    try:
        program, args = corpus_entry(shard['atom'], shard['pos'], tier)
    except Exception:
        return res
    res['cov']['programs'] += 1
    try:
        h = make(fam, cfg, program)
    except etree.XMLSchemaParseError:
        res['notes']['schema-does-not-compile(C06)'] = 1
        return res
    m = h.b.methods['m']
    # the valid request
    try:
        if fam == 'xml':
            valid = xsdcodec.build_request(h.codec, m, args, cfg['proto'])
            muts = lambda: itertools.chain(truncations(valid), xml_structural(valid, cfg['proto']))
        elif fam == 'dict':
            doc = h.codec.request_doc(m, args)
            valid = h.codec.dumps(doc)

            def muts():
                for x in truncations(valid):
                    yield x
                for kind, label, d2 in dict_structural(doc):
                    try:
                        yield kind, label, h.codec.dumps(d2)
                    except Exception:
                        continue
                yield 'doc', 'invalid-utf8', valid[:len(valid) // 2] + b'\xff\xfe' + valid[len(valid) // 2:]
                yield 'doc', 'trailing-garbage', valid + b'}]x'
        else:
            pairs = []
            for (an, at), v in zip(m['args'], args):
                pairs += httpcodec.flatten(h.b, an, at, v)
            valid = httpcodec.query_string(pairs)
            muts = lambda: http_structural(pairs)
    except (xsdcodec.NotDenotable, dictcodec.NotDenotable, httpcodec.NotDenotable, xsdcodec.SchemaError):
        res['notes']['corpus-entry-not-denotable'] = 1
        return res
    seen = set()
    for transport in (['wsgi'] if fam == 'http' else ['server', 'wsgi']):
        rn = Runner(fam, h, transport)
        r0 = rn.run(valid)
        if only is None:
            if r0['escaped'] is not None or r0['code'] is not None or r0['entered'] != 1:
                res['violations'].append({'sig': 'C10|valid-request-failed|%s|%s' % (rn.family, shard['atom']),
                                          'what': '[%s %s] deviation 0 must succeed: %r' % (rn.label, transport, {k: str(v)[:100] for k, v in r0.items()}),
                                          'case': {'shard': shard, 'only': [transport, 'valid', '']}, 'count': 1})
        def tails():
            if isinstance(valid, bytes):
                # more bytes than one document: a second document, a newline, a NUL, a stray opening token
                for label, extra in (('newline', b'\n'), ('nul', b'\x00'), ('twice', valid), ('open', valid[:1]), ('space', b' ')):
                    yield 'trailing-bytes', label, valid + extra
        for kind, label, data in itertools.chain(muts(), tails()):
            key = [transport, kind, label]
            if only is not None and only != key:
                continue
            if data == valid:
                continue
            r = rn.run(data)
            casedoc = {'shard': shard, 'only': key}
            oc = verdict(r, rn, data if isinstance(data, bytes) else data.encode('utf8', 'replace'), res, casedoc, kind)
            res['evaluations'] += 1
            if oc != 'escape':
                # ... and the application is as good as new afterwards: the valid request is answered as before
                r1 = rn.run(valid)
                if r1['escaped'] is not None or r1['code'] is not None or r1['entered'] != 1 or r1['out'] != r0['out']:
                    res['violations'].append({'sig': 'C10|valid-request-fails-afterwards|%s|%s' % (rn.family, kind),
                                              'what': '[%s %s] after the malformed request %r the VALID request is answered %r (before: %r)' % (
                                                  rn.label, transport, (data if isinstance(data, bytes) else data.encode('utf8', 'replace'))[:200],
                                                  {k: str(v)[:100] for k, v in r1.items()}, {k: str(v)[:60] for k, v in r0.items()}),
                                              'case': casedoc, 'count': 1})
            res['cov']['truncations' if kind == 'truncate' else 'structural'] += 1
            res['outcomes'][oc] = res['outcomes'].get(oc, 0) + 1
            if (transport, data) not in seen:
                seen.add((transport, data))
                res['nontrivial'] += 1
        if tier == 'thorough' and fam != 'http' and shard['pos'] == 'field':
            # deviation 2: all pairs of structural mutations (second applied to the output of the first)
            def _dumped(gen):
                for k, l, d2 in gen:
                    if k in ('leaf-text', 'attr-text', 'leaf-number', 'doc', 'kind'):
                        continue
                    try:
                        yield k, l, h.codec.dumps(d2)
                    except Exception:
                        continue
            firsts = [(k, l, d) for k, l, d in (xml_structural(valid, cfg['proto']) if fam == 'xml' else _dumped(dict_structural(doc)))
                      if k not in ('leaf-text', 'attr-text', 'leaf-number', 'doc', 'kind')]
            for k1, l1, d1 in firsts:
                try:
                    if fam == 'xml':
                        seconds = [(k, l, d) for k, l, d in xml_structural(d1, cfg['proto']) if k not in ('leaf-text', 'attr-text', 'doc')]
                    else:
                        doc1 = h.codec.loads(d1)
                        seconds = list(_dumped(dict_structural(doc1)))
                except Exception:
                    continue
                for k2, l2, d2 in seconds:
                    key = [transport, 'pair', '%s:%s+%s:%s' % (k1, l1, k2, l2)]
                    if only is not None and only != key:
                        continue
                    r = rn.run(d2)
                    oc = verdict(r, rn, d2, res, {'shard': shard, 'only': key}, 'pair:%s+%s' % (k1, k2))
                    res['evaluations'] += 1
                    res['cov']['pairs'] += 1
                    res['nontrivial'] += 1
                    res['outcomes'][oc] = res['outcomes'].get(oc, 0) + 1
    if not res['samples'] and only is None:
        res['samples'].append({'corpus': [shard['atom'], shard['pos']], 'config': [fam, cfg], 'valid_request': repr(valid[:300])})
    from vf.props.c01 import compress
    return compress(res)


def replay(case):
    r = run_shard(case['shard'], only=case['only'])
    return r['violations']
