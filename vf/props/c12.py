"""C12 - concurrent requests do not interfere; the lazy WSDL is built once and served whole.

Model checking of the implementation (E2): stateless exploration of thread interleavings under a controlled scheduler
(vf/sched.py) with iterative preemption bounding.  One fresh WsgiApplication per execution (cold caches), 2 or 3 real
Python threads each issuing one request; scheduling points are line events in the shared-state files and the
operations of the cooperative locks that replace WsgiApplication._mtx_build_interface_document and every memoize.lock.
All schedules with 0, then 1 (thorough: 2 for two threads) preemptions are executed.  Oracle: the sequential
reference - each request alone on a fresh application; every caller's (status, headers, body) must equal its
reference, every ?wsdl caller gets the same complete document, and the interface document is built exactly once."""
import json
import os
import sys
import threading

from vf import spec, drv, harness, universe, sched
from vf.tagged import Obj

ID = 'C12'
LEVEL = 'model_checking'
RULE = ('every schedule of the driver with at most the stated number of preemptions at line granularity in the shared-state files; '
        'non-trivial = schedules containing at least one context switch inside shared code; states = distinct (per-thread position, '
        'thread status) vectors visited; every schedule is an execution of the real code')
ASSUMPTIONS = ['Python-line granularity: races inside one line, inside C calls or where lxml releases the GIL are not modelled',
               'code outside the point files only touches per-request state (checked in the thorough tier by a bound-1 run with every spyne file as a point file for one driver)',
               'the real-time-triggered gc.collect() of MethodContext.close() is switched off (spyne.const.MIN_GC_INTERVAL = inf): the harness owns the clock']
FLOOR = {'quick': 300, 'thorough': 3000}
TNS = universe.TNS
I = ['p', 'Integer', {}]
U = ['p', 'Unicode', {}]
REPO = os.path.abspath(os.environ.get('VERIF_REPO', '/repo'))

NARROW = ['server/wsgi.py', 'util/memo.py', 'util/cdict.py', 'protocol/_base.py']
RPC = NARROW + ['protocol/xml.py', 'protocol/soap/soap11.py', 'context.py']
JSONF = NARROW + ['protocol/dictdoc/hier.py', 'protocol/dictdoc/_base.py', 'protocol/json.py', 'context.py']
WIDE = RPC + ['interface/wsdl/wsdl11.py', 'interface/_base.py', 'interface/xml_schema/_base.py', 'model/complex.py', 'protocol/_inbase.py',
              'protocol/_outbase.py', 'server/_base.py', 'application.py']


def files(names):
    return set(os.path.join(REPO, 'spyne', n) for n in names)


def program():
    P = {'n': 'P', 'fields': [['x', I], ['s', U]]}
    Q = {'n': 'Q', 'base': 'P', 'fields': [['q', I]]}
    W = {'n': 'W', 'ns': 'urn:vf:w', 'fields': [['w', ['p', 'Unicode', {'pa_soap11': {'sub_name': 'renamed'}}]], ['v', ['p', 'Integer', {'pa_soap11': {'exc': True}}]], ['u', U]]}
    ms = [{'n': 'echo', 'args': [['a', I], ['s', U]], 'ret': U},
          {'n': 'other', 'args': [['p', ['c', 'P', {}]]], 'ret': ['c', 'P', {}]},
          {'n': 'strict', 'args': [['n', ['p', 'Integer', {'ge': 0, 'le': 9}]], ['t', ['p', 'Unicode', {'max_len': 6}]]], 'ret': I},
          {'n': 'poly', 'args': [['n', I]], 'ret': ['c', 'P', {}]},
          {'n': 'pa', 'args': [['n', I]], 'ret': ['c', 'W', {}]},
          {'n': 'ord', 'args': [['n', I]], 'ret': ['c', 'Ord', {}]},
          {'n': 'desc', 'args': [['p', ['c', 'P', {}]]], 'ret': U}]
    # a subclass whose own member asks to be ordered first: the protocols that order fields have work to do (and to cache)
    Ord = {'n': 'Ord', 'base': 'P', 'fields': [['k', ['p', 'Integer', {'order': 0}]], ['z', U]]}
    return {'tns': TNS, 'classes': [P, Q, W, Ord], 'services': [{'n': 'S', 'methods': ms}]}


def soap(method, inner):
    return ('<e:Envelope xmlns:e="http://schemas.xmlsoap.org/soap/envelope/" xmlns:t="%s"><e:Body><t:%s>%s</t:%s></e:Body></e:Envelope>' % (
        TNS, method, inner, method)).encode()


REQS = {
    'wsdl': ('GET', 'wsdl', None),
    'echo1': ('POST', '', soap('echo', '<t:a>1</t:a><t:s>first</t:s>')),
    'echo2': ('POST', '', soap('echo', '<t:a>2</t:a><t:s>second</t:s>')),
    'other': ('POST', '', soap('other', '<t:p><t:x>5</t:x><t:s>obj</t:s></t:p>')),
    'fault': ('POST', '', soap('echo', '<t:a>13</t:a><t:s>boom</t:s>')),
    'bad1': ('POST', '', soap('strict', '<t:n>11111</t:n><t:t>ok</t:t>')),
    'bad2': ('POST', '', soap('strict', '<t:n>3</t:n><t:t>much-too-long-2222</t:t>')),
    'poly1': ('POST', '', soap('poly', '<t:n>1</t:n>')),
    'poly2': ('POST', '', soap('poly', '<t:n>2</t:n>')),
    'pa1': ('POST', '', soap('pa', '<t:n>1</t:n>')),
    'pa2': ('POST', '', soap('pa', '<t:n>2</t:n>')),
    'obj1': ('POST', '', soap('desc', '<t:p><t:x>5</t:x></t:p>')),
    'obj2': ('POST', '', soap('desc', '<t:p><t:s>only-s</t:s></t:p>')),
    'jo1': ('POST', '', b'{"ord": {"n": 1}}'),
    'jo2': ('POST', '', b'{"ord": {"n": 2}}'),
    'je1': ('POST', '', b'{"echo": {"a": 1, "s": "first"}}'),
    'xe1': ('POST', '', ('<t:echo xmlns:t="%s"><t:a>1</t:a><t:s>first</t:s></t:echo>' % TNS).encode()),
    'xe2': ('POST', '', ('<t:other xmlns:t="%s"><t:p><t:x>5</t:x><t:s>obj</t:s></t:p></t:other>' % TNS).encode()),
    'xbad': ('POST', '', ('<t:echo xmlns:t="%s"><t:a>1</t:a><t:s>unclosed</t:echo>' % TNS).encode()),
}

DRIVERS = {
    # name: (requests, validator, polymorphic, point files quick, point files thorough)
    'wsdl|wsdl': (['wsdl', 'wsdl'], None, False, ['server/wsgi.py'], NARROW + ['interface/wsdl/wsdl11.py']),
    'wsdl|rpc': (['wsdl', 'echo1'], None, False, ['server/wsgi.py', 'protocol/_base.py'], RPC),
    'rpc|rpc-same-method': (['echo1', 'echo2'], None, False, NARROW, RPC),
    'rpc|rpc-different-methods': (['echo1', 'other'], None, False, NARROW, RPC),
    'success|fault': (['echo1', 'fault'], None, False, NARROW, RPC),
    'invalid|invalid-lxml': (['bad1', 'bad2'], 'lxml', False, ['protocol/xml.py', 'server/wsgi.py'], RPC),
    'invalid|valid-soft': (['bad1', 'echo1'], 'soft', False, NARROW, RPC),
    'poly|poly': (['poly1', 'poly2'], None, True, NARROW + ['protocol/xml.py'], RPC),
    'prot_attrs|prot_attrs': (['pa1', 'pa2'], None, False, ['protocol/_base.py', 'server/wsgi.py'], RPC),
    'wsdl|wsdl|rpc': (['wsdl', 'wsdl', 'echo1'], None, False, ['server/wsgi.py'], ['server/wsgi.py', 'protocol/_base.py']),
    # two first instantiations of the same class, each with one member absent: the model layer's per-class caches
    'object|object': (['obj1', 'obj2'], None, False, ['model/complex.py', 'server/wsgi.py'], RPC + ['model/complex.py', 'model/_base.py']),
    # the dict-document family (JSON, positional objects): per-protocol caches of field order and attributes
    'json-ordered|json-ordered': (['jo1', 'jo2'], None, False, ['protocol/_base.py', 'server/wsgi.py'], JSONF, 'json'),
    'json-ordered|json-rpc': (['jo1', 'je1'], 'soft', False, ['protocol/_base.py', 'server/wsgi.py'], JSONF, 'json'),
    # the first ?wsdl request and the first schema-validated call of a fresh application (types in two namespaces): both
    # work on the application's schema document objects
    'wsdl|rpc-lxml': (['wsdl', 'echo1'], 'lxml', False, ['interface/xml_schema/_base.py', 'interface/wsdl/wsdl11.py', 'server/wsgi.py', 'protocol/xml.py'],
                      RPC + ['interface/xml_schema/_base.py', 'interface/wsdl/wsdl11.py']),
    # plain XmlDocument as in and out protocol (its own request path: parser, document, envelope-less decomposition)
    'xml|xml': (['xe1', 'xe2'], None, False, ['protocol/xml.py', 'server/wsgi.py'], RPC, 'xml'),
    'xml-malformed|xml': (['xbad', 'xe1'], None, False, ['protocol/xml.py', 'server/wsgi.py'], RPC, 'xml'),
}


def bounds(tier):
    return {'drivers': sorted(DRIVERS), 'preemption_bound': 1 if tier == 'quick' else '2 for every two-thread driver with server/wsgi.py as the point file; 1 on the wide file sets, for the three-thread driver and on all spyne files',
            'horizon_steps': 20000, 'granularity': 'Python line events in the listed files + cooperative lock operations'}


_SCHED = [None]


def get_sched():
    return _SCHED[0]


class World(object):
    """fresh application + per-thread bodies for one execution"""

    def __init__(self, driver):
        from spyne.server.wsgi import WsgiApplication
        from spyne.util.memo import memoize
        from spyne.model.fault import Fault
        reqs, validator, poly = DRIVERS[driver][:3]
        proto = DRIVERS[driver][5] if len(DRIVERS[driver]) > 5 else 'soap11'
        self.reqs = reqs
        # own the clock: MethodContext.close() runs gc.collect() when more than MIN_GC_INTERVAL seconds of real time have
        # passed since the last one - four extra line events in context.py at unpredictable executions
        import spyne.const
        spyne.const.MIN_GC_INTERVAL = float('inf')
        for m in memoize.registry:
            m.reset() if hasattr(m, 'reset') else None
            m.lock = sched.CoopLock(get_sched, name='memo:%s' % getattr(m.func, '__name__', '?'), reentrant=True)
        self.b = spec.build(program())
        b = self.b
        if proto == 'json':
            inp = harness.make_proto('json', validator)
            outp = harness.make_proto('json', complex_as=list)
        elif proto == 'xml':
            inp = harness.make_proto('xml', validator)
            outp = harness.make_proto('xml')
        else:
            inp = harness.make_proto('soap11', validator)
            outp = harness.make_proto('soap11', polymorphic=True) if poly else harness.make_proto('soap11')
        self.app = spec.make_app(b, inp, outp)
        for p in (inp, outp):
            if hasattr(p, '_mtx_validate'):
                p._mtx_validate = sched.CoopLock(get_sched, name='schema-validate')
        self.wsgi = WsgiApplication(self.app)
        self.wsgi._mtx_build_interface_document = sched.CoopLock(get_sched, name='wsdl-build')
        self.builds = [0]
        w = self.wsgi.doc.wsdl11
        orig = w.build_interface_document
        builds = self.builds

        def counting(*a, **kw):
            builds[0] += 1
            return orig(*a, **kw)
        w.build_interface_document = counting

        def echo(ctx, a, s):
            if a == 13:
                raise Fault('Client.Unlucky', 'thirteen: %s' % s)
            return '%s/%d' % (s, a)
        b.rec.script['echo'] = ('call', echo)
        b.rec.script['other'] = ('call', lambda ctx, p: p)
        b.rec.script['desc'] = ('call', lambda ctx, p: 'x=%r s=%r' % (p.x, p.s))
        b.rec.script['strict'] = ('ret', 1)
        Q, P = b.classes['Q'], b.classes['P']
        W = b.classes['W']
        b.rec.script['pa'] = ('call', lambda ctx, n: W(w='dubya%d' % n, v=n, u='you'))
        Ord = b.classes['Ord']
        b.rec.script['ord'] = ('call', lambda ctx, n: Ord(x=n, s='o%d' % n, k=n * 2, z='zed'))
        b.rec.script['poly'] = ('call', lambda ctx, n: Q(x=n, s='sub%d' % n, q=n * 10) if n == 1 else P(x=n, s='base%d' % n))

    def body(self, name):
        method, query, data = REQS[name]
        wsgi = self.wsgi

        def run():
            ct = None if not data else ('application/json' if data.startswith(b'{') else 'text/xml; charset=utf-8')
            env = drv.environ(method, '/app', query, data or b'', content_type=ct,
                              content_length='auto' if data else None)
            env['HTTP_HOST'] = 'localhost'
            o = drv.call_wsgi(wsgi, env)
            if o.escaped is not None:
                return ('escaped', repr(o.escaped), drv.innermost_spyne_frame(o.escaped))
            hdrs = sorted((k, v) for k, v in (o.headers or []) if k.lower() != 'date')
            return (o.status, hdrs, o.out)
        return run


def reference(driver):
    """each request alone on a fresh application"""
    out = []
    _SCHED[0] = None
    for name in DRIVERS[driver][0]:
        w = World(driver)
        out.append(w.body(name)())
    return out


def execute(driver, prefix, point_files):
    w = World(driver)
    s = sched.Scheduler(len(w.reqs), prefix, point_files)
    _SCHED[0] = s
    try:
        results, excs = s.run([w.body(n) for n in w.reqs])
    finally:
        _SCHED[0] = None
    x = sched.Execution(list(s.choices), list(s.points), results, excs, s.error, s)
    x.builds = w.builds[0]
    return x


def shards(tier):
    out = []
    for d in sorted(DRIVERS):
        reqs, _, _, q, t = DRIVERS[d][:5]
        if tier == 'quick':
            for sl in range(4):
                out.append({'driver': d, 'files': q, 'bound': 1, 'tier': tier, 'slice': [sl, 4]})
        else:
            nsl = 16
            for sl in range(nsl):
                # preemption bound 2 on the transport module alone (the locks and caches of the WSGI server live there;
                # ~120-170 preemption points per request pair); the three-thread driver stays at bound 1 (bound 2 there
                # did not finish in 25 minutes)
                if len(reqs) == 2:
                    out.append({'driver': d, 'files': ['server/wsgi.py'], 'bound': 2, 'tier': tier, 'slice': [sl, nsl]})
                out.append({'driver': d, 'files': t, 'bound': 1, 'tier': tier, 'slice': [sl, nsl]})
    if tier == 'thorough':
        for sl in range(16):
            out.append({'driver': 'rpc|rpc-same-method', 'files': 'ALL', 'bound': 1, 'tier': tier, 'slice': [sl, 16]})
            out.append({'driver': 'wsdl|rpc', 'files': WIDE, 'bound': 1, 'tier': tier, 'slice': [sl, 16]})
    return out


def all_spyne_files():
    out = set()
    for root, dirs, fs in os.walk(os.path.join(REPO, 'spyne')):
        if '/test' in root:
            continue
        for f in fs:
            if f.endswith('.py'):
                out.add(os.path.join(root, f))
    return out


def finish(tier, agg):
    return {'states': len(agg.sets.get('sched_states', ())), 'transitions': agg.cov.get('steps', 0),
            'traces_validated_against_impl': agg.cov.get('schedules', 0),
            'schedules_with_switch_in_shared_code': agg.cov.get('schedules_with_switch', 0),
            'explanation': 'every schedule is executed on the real WsgiApplication; states are (per-thread file:line, thread status) vectors'}


def run_shard(shard, only=None):
    res = {'evaluations': 0, 'nontrivial': 0, 'outcomes': {}, 'violations': [], 'samples': [], 'cov': {'schedules': 0, 'steps': 0, 'schedules_with_switch': 0}, 'notes': {},
           'sets': {'sched_states': [], 'outcome_vectors': []}}
    d = shard['driver']
    pf = all_spyne_files() if shard['files'] == 'ALL' else files(shard['files'])
    ref = reference(d)
    for r in ref:
        if r[0] == 'escaped':
            raise RuntimeError('sequential reference run failed: %r' % (r,))
    # replay determinism: the same schedule twice must give identical observations and identical points
    base1 = execute(d, [], pf)
    base2 = execute(d, [], pf)
    if base1.error is not None:
        raise RuntimeError('schedule [] failed: %r' % (base1.error,))
    if [(p.n_enabled, p.tid) for p in base1.points] != [(p.n_enabled, p.tid) for p in base2.points] or base1.results != base2.results:
        raise RuntimeError('replay of the same schedule is not deterministic (%d vs %d points)' % (len(base1.points), len(base2.points)))
    res['cov']['determinism_selftest_points'] = len(base1.points)
    states = set()
    vectors = set()

    def check(x, prefix):
        res['evaluations'] += 1
        res['cov']['schedules'] += 1
        res['cov']['steps'] += len(x.points)
        states.update(x.state_hashes)
        if x.switches:
            res['cov']['schedules_with_switch'] += 1
            res['nontrivial'] += 1
        casedoc = {'driver': d, 'files': shard['files'], 'schedule': list(x.choices)}

        def where(i):
            p = x.points[i] if i < len(x.points) else None
            return '%s:%s' % tuple(p.where) if p is not None and p.where and len(p.where) == 2 else 'end'

        def V(kind, detail, what):
            dev = [i for i, c in enumerate(x.choices) if c != 0]
            at = where(dev[0]).split(':')[0] + ':' + func_at(x, dev[0]) if dev else 'no-preemption'
            res['violations'].append({'sig': 'C12|%s|%s|%s|%s' % (kind, d, detail, at),
                                      'what': '[%s, %d preemption points %s] %s' % (d, len(dev), [where(i) for i in dev][:3], what), 'case': casedoc, 'count': 1})
        if x.error is not None:
            V('scheduler-' + type(x.error).__name__, '', 'execution failed: %r' % (x.error,))
            return
        vec = []
        for t, (r, e, want) in enumerate(zip(x.results, x.excs, ref)):
            if e is not None:
                V('thread-exception', type(e).__name__, 'thread %d raised %r' % (t, e))
                vec.append('exc')
                continue
            if r is None:
                V('thread-no-result', '', 'thread %d produced no result' % t)
                continue
            if r[0] == 'escaped':
                V('escaped', r[1].split('(')[0] + '@' + r[2], 'request %s of thread %d: exception escaped the WSGI callable: %s' % (DRIVERS[d][0][t], t, r[1]))
                vec.append('escaped')
                continue
            if r != want:
                what = 'status' if r[0] != want[0] else 'headers' if r[1] != want[1] else 'body'
                V('differs-from-sequential', '%s|%s' % (DRIVERS[d][0][t], what),
                  'thread %d (%s) got %s %r..., alone it gets %s %r...' % (t, DRIVERS[d][0][t], r[0], (r[2] or b'')[:160], want[0], (want[2] or b'')[:160]))
                vec.append('differs')
            else:
                vec.append('same')
        nw = DRIVERS[d][0].count('wsdl')
        if nw and x.builds != 1:
            V('wsdl-build-count', str(x.builds), 'the interface document was built %d times for %d ?wsdl requests' % (x.builds, nw))
        vectors.add(tuple(vec))
    if only is not None:
        x = execute(d, only, pf)
        check(x, only)
    else:
        # split the first-deviation points among slices
        sl = shard.get('slice')
        bound = shard['bound']
        check(base1, [])
        firsts = []
        for i, p in enumerate(base1.points):
            for alt in range(1, p.n_enabled):
                cost = 1 if p.running_enabled else 0
                if cost <= bound:
                    firsts.append((base1.choices[:i] + [alt], cost))
        if sl:
            firsts = firsts[sl[0]::sl[1]]
        for prefix, cost in firsts:
            st = sched.explore(lambda pr: execute(d, pr, pf), check, bound, start_prefix=prefix, start_cost=cost,
                               budget=(40000 if shard['tier'] == 'thorough' else 3000))
            if st['capped']:
                res['notes']['budget-cap-hit'] = res['notes'].get('budget-cap-hit', 0) + 1
    res['sets']['sched_states'] = list(states)
    res['sets']['outcome_vectors'] = [json.dumps(v) for v in vectors]
    res['outcomes']['schedules'] = res['cov']['schedules']
    if not res['samples']:
        res['samples'].append({'driver': d, 'point_files': shard['files'], 'points_in_default_schedule': len(base1.points), 'bound': shard['bound']})
    from vf.props.c01 import compress
    return compress(res)


def func_at(x, i):
    return ''


def replay(case):
    shard = {'driver': case['driver'], 'files': case['files'], 'bound': 0, 'tier': 'quick'}
    r = run_shard(shard, only=case['schedule'])
    return r['violations']
