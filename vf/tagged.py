"""Tagged-JSON encoding of native values (so that every case is a JSON replay file) and the
per-type equality of DESIGN.md section 2.4.  Independent of spyne."""
import datetime as _dt
import decimal
import math
import uuid


class Obj(object):
    """Reference-side stand-in for an instance of a generated complex class."""
    __slots__ = ('cls', 'f', 'alias')

    def __init__(self, cls, **f):
        self.cls = cls
        self.alias = f.pop('_alias', None)   # Objs with the same alias become ONE native instance (aliasing)
        self.f = f

    def __repr__(self):
        return 'Obj(%s, %s)' % (self.cls, ', '.join('%s=%r' % kv for kv in sorted(self.f.items())))


class Chunks(bytes):
    """A ByteArray value given to Spyne as a sequence of byte chunks (its documented native form).  For the reference
    side it *is* the byte string it denotes; spec.to_native hands Spyne the chunk list."""
    def __new__(cls, chunks, as_tuple=False):
        o = bytes.__new__(cls, b''.join(chunks))
        o.chunks = tuple(bytes(c) for c in chunks)
        o.as_tuple = as_tuple
        return o

    def __getnewargs__(self):
        return (self.chunks, self.as_tuple)

    def native(self):
        return tuple(self.chunks) if self.as_tuple else list(self.chunks)

    def __repr__(self):
        return 'Chunks(%r)' % (self.chunks,)


class FixedTz(_dt.tzinfo):
    def __init__(self, minutes):
        self.m = minutes

    def utcoffset(self, dt):
        return _dt.timedelta(minutes=self.m)

    def dst(self, dt):
        return _dt.timedelta(0)

    def tzname(self, dt):
        return 'Fix%+d' % self.m

    def __repr__(self):
        return 'FixedTz(%d)' % self.m

    def __eq__(self, o):
        return isinstance(o, _dt.tzinfo) and o.utcoffset(None) == self.utcoffset(None)

    def __hash__(self):
        return hash(self.m)


def tz(minutes):
    return _dt.timezone(_dt.timedelta(minutes=minutes))


def enc(v):
    if v is None or isinstance(v, (bool, str)):
        return v
    from vf.ref import special
    if isinstance(v, special.Raw):
        return {'$raw': v.text}
    if isinstance(v, special.Repeat):
        return {'$repeat': [enc(x) for x in v.values]}
    if v is special.Absent:
        return {'$absent': 1}
    if v is special.Nil:
        return {'$nil': 1}
    if isinstance(v, int):
        return v if abs(v) < 2 ** 53 else {'$i': str(v)}
    if isinstance(v, float):
        return {'$f': repr(v)}
    if isinstance(v, decimal.Decimal):
        return {'$dec': str(v)}
    if isinstance(v, Chunks):
        return {'$chunks': [c.hex() for c in v.chunks], 'tuple': v.as_tuple}
    if isinstance(v, (bytes, bytearray)):
        return {'$b': bytes(v).hex()}
    if isinstance(v, _dt.datetime):
        off = v.utcoffset()
        return {'$dt': [v.year, v.month, v.day, v.hour, v.minute, v.second, v.microsecond,
                        None if off is None else int(off.total_seconds() // 60)]}
    if isinstance(v, _dt.date):
        return {'$d': [v.year, v.month, v.day]}
    if isinstance(v, _dt.time):
        return {'$t': [v.hour, v.minute, v.second, v.microsecond]}
    if isinstance(v, _dt.timedelta):
        return {'$td': [v.days, v.seconds, v.microseconds]}
    if isinstance(v, uuid.UUID):
        return {'$u': str(v)}
    if isinstance(v, Obj):
        j = {'$o': v.cls, 'f': {k: enc(x) for k, x in v.f.items()}}
        if v.alias is not None:
            j['alias'] = v.alias
        return j
    if isinstance(v, (list, tuple)):
        return [enc(x) for x in v]
    if isinstance(v, dict):
        return {'$m': [[enc(k), enc(x)] for k, x in v.items()]}
    raise TypeError('cannot tag %r' % (v,))


def dec(j):
    if j is None or isinstance(j, (bool, str, int)):
        return j
    if isinstance(j, float):
        return j
    if isinstance(j, list):
        return [dec(x) for x in j]
    if '$raw' in j:
        from vf.ref import special
        return special.Raw(j['$raw'])
    if '$repeat' in j:
        from vf.ref import special
        return special.Repeat([dec(x) for x in j['$repeat']])
    if '$absent' in j:
        from vf.ref import special
        return special.Absent
    if '$nil' in j:
        from vf.ref import special
        return special.Nil
    if '$i' in j:
        return int(j['$i'])
    if '$f' in j:
        return float(j['$f'])
    if '$dec' in j:
        return decimal.Decimal(j['$dec'])
    if '$chunks' in j:
        return Chunks([bytes.fromhex(c) for c in j['$chunks']], j.get('tuple', False))
    if '$b' in j:
        return bytes.fromhex(j['$b'])
    if '$dt' in j:
        a = j['$dt']
        return _dt.datetime(a[0], a[1], a[2], a[3], a[4], a[5], a[6],
                            None if a[7] is None else tz(a[7]))
    if '$d' in j:
        return _dt.date(*j['$d'])
    if '$t' in j:
        return _dt.time(*j['$t'])
    if '$td' in j:
        return _dt.timedelta(*j['$td'])
    if '$u' in j:
        return uuid.UUID(j['$u'])
    if '$o' in j:
        o = Obj(j['$o'], **{k: dec(x) for k, x in j['f'].items()})
        o.alias = j.get('alias')
        return o
    if '$m' in j:
        return {dec(k): dec(x) for k, x in j['$m']}
    raise TypeError('cannot untag %r' % (j,))


def _none_like(v):
    """what the wire cannot distinguish from None (section 2.4)"""
    return v is None or (isinstance(v, (list, tuple)) and len(v) == 0) or \
        (isinstance(v, (bytes, bytearray)) and len(v) == 0)


def equal(a, b, loose_empty=True):
    """Per-type equality.  a = expected (reference side), b = observed."""
    if a is None or b is None:
        if a is None and b is None:
            return True
        return loose_empty and _none_like(a) and _none_like(b)
    if isinstance(a, bool) or isinstance(b, bool):
        return isinstance(a, bool) and isinstance(b, bool) and a == b
    if isinstance(a, float) or isinstance(b, float):
        if not isinstance(a, (int, float, decimal.Decimal)) or not isinstance(b, (int, float, decimal.Decimal)):
            return False
        fa, fb = float(a), float(b)
        if math.isnan(fa) or math.isnan(fb):
            return math.isnan(fa) and math.isnan(fb)
        return fa == fb
    if isinstance(a, (int, decimal.Decimal)):
        return isinstance(b, (int, decimal.Decimal)) and not isinstance(b, bool) and a == b
    if isinstance(a, str):
        return isinstance(b, str) and a == b
    if isinstance(a, (bytes, bytearray)):
        if isinstance(b, (list, tuple)) and all(isinstance(x, (bytes, bytearray)) for x in b):
            b = b''.join(b)
        return isinstance(b, (bytes, bytearray)) and bytes(a) == bytes(b)
    if isinstance(a, _dt.datetime):
        if not isinstance(b, _dt.datetime):
            return False
        oa, ob = a.utcoffset(), b.utcoffset()
        if (oa is None) != (ob is None):
            return False
        if oa is None:
            return a == b
        return a == b and oa == ob
    if isinstance(a, _dt.date):
        return isinstance(b, _dt.date) and not isinstance(b, _dt.datetime) and a == b
    if isinstance(a, _dt.time):
        return isinstance(b, _dt.time) and a.replace(tzinfo=None) == b.replace(tzinfo=None)
    if isinstance(a, _dt.timedelta):
        return isinstance(b, _dt.timedelta) and a == b
    if isinstance(a, uuid.UUID):
        return isinstance(b, uuid.UUID) and a == b
    if isinstance(a, Obj):
        if not isinstance(b, Obj) or a.cls != b.cls:
            return False
        keys = set(a.f) | set(b.f)
        return all(equal(a.f.get(k), b.f.get(k), loose_empty) for k in keys)
    if isinstance(a, (list, tuple)):
        if isinstance(b, (bytes, bytearray)):
            return False
        try:
            b = list(b)
        except TypeError:
            return False
        return len(a) == len(b) and all(equal(x, y, loose_empty) for x, y in zip(a, b))
    if isinstance(a, dict):
        return isinstance(b, dict) and set(a) == set(b) and all(equal(a[k], b[k], loose_empty) for k in a)
    return a == b
