"""Finite, ordered boundary alphabets of native values per primitive (DESIGN 2.2), each value with a
class label used in violation signatures.  Independent of spyne."""
import datetime as _dt
import decimal
import uuid

from vf.ref.xsdlex import INT_RANGES, XS_OF
from vf.tagged import tz, Chunks

D = decimal.Decimal


def tz_label(off_min):
    if off_min is None:
        return 'naive'
    if off_min == 0:
        return 'utc'
    return '%s,min%s0' % ('pos' if off_min > 0 else 'neg', '=' if off_min % 60 == 0 else '!=')


def us_label(us):
    if us == 0:
        return 'us=0'
    s = '%06d' % us
    return 'us-lead0=%d,trail0=%d' % (len(s) - len(s.lstrip('0')), len(s) - len(s.rstrip('0')))


def int_label(v, xs):
    lo, hi = INT_RANGES[xs]
    if v == 0:
        return 'zero'
    if lo is not None and v == lo and lo != 0:
        return 'min'
    if hi is not None and v == hi:
        return 'max'
    edges = {2 ** 63 - 1: 'i64-max', 2 ** 63: 'huge-i64-max+1', -2 ** 63: 'huge-i64-min', -2 ** 63 - 1: 'huge-i64-min-1', 2 ** 64 - 1: 'huge-u64-max',
             2 ** 64: 'huge-u64-max+1', 2 ** 53: 'f53', 2 ** 53 + 1: 'f53+1', 2 ** 31 - 1: 'i32-max', 2 ** 31: 'i32-max+1', -2 ** 31 - 1: 'i32-min-1'}
    if v in edges:      # every width boundary of the binary wire formats is its own class
        return edges[v]
    if abs(v) >= 2 ** 63:
        return 'huge-pos' if v > 0 else 'huge-neg'
    return 'pos' if v > 0 else 'neg'


def integers(xs, full=False):
    lo, hi = INT_RANGES[xs]
    cand = [0, 1, -1, 9, -9, 10, -10, 127, 128, -128, -129, 255, 256, 32767, 32768, -32768, -32769,
            65535, 65536, 2 ** 31 - 1, 2 ** 31, -2 ** 31, -2 ** 31 - 1, 2 ** 32 - 1, 2 ** 32,
            2 ** 53, 2 ** 53 + 1, 2 ** 63 - 1, 2 ** 63, -2 ** 63, -2 ** 63 - 1, 2 ** 64 - 1, 2 ** 64, 10 ** 30, -10 ** 30]
    out = []
    for v in cand:
        if (lo is None or v >= lo) and (hi is None or v <= hi):
            out.append(v)
    if full and lo is not None and hi is not None and hi - lo <= 70000:
        out = list(range(lo, hi + 1))
    seen = set()
    res = []
    for v in out:
        if v not in seen:
            seen.add(v)
            res.append((int_label(v, xs), v))
    return res


def decimals():
    vals = ['0', '-0', '1', '-1', '0.1', '-0.1', '123.456', '1E+10', '2.8E+10', '1E-7', '-1.5E-9',
            '1000000000000000000000000000000.5', '79228162514264337593543950335', '0.000', '1.10',
            '99999999999999999999.99999999999999999999']
    out = []
    for s in vals:
        v = D(s)
        lab = 'exp-pos' if 'E+' in s else 'exp-neg' if 'E-' in s else 'neg-zero' if s == '-0' else \
            'trailing-zeros' if s in ('0.000', '1.10') else 'big' if len(s) > 20 else 'plain'
        out.append((lab, v))
    return out


def doubles():
    return [('zero', 0.0), ('neg-zero', -0.0), ('plain', 1.5), ('plain', 0.1), ('plain', -2.25),
            ('large-exp', 1e22), ('large-exp', 1.7976931348623157e308), ('small-exp', 1e-7),
            ('small-exp', 5e-324), ('integral', 3.0), ('integral', 1e16),
            ('inf', float('inf')), ('neg-inf', float('-inf')), ('nan', float('nan'))]


def floats32():
    return [(l, v) for l, v in doubles() if l in ('zero', 'neg-zero', 'plain', 'integral', 'inf', 'neg-inf', 'nan')
            and v != 0.1]


TEXTS = [('empty', ''), ('one-char', 'a'), ('plain', 'hello world'), ('leading-space', ' x'),
         ('trailing-space', 'x '), ('only-space', ' '), ('tab', 'a\tb'), ('newline', 'a\nb'),
         ('carriage-return', 'a\rb'), ('crlf', 'a\r\nb'),
         ('markup', '<&>"\''), ('cdata-end', ']]>'), ('non-bmp', '\U0001F600'), ('combining', 'é'),
         ('latin1', 'caf\xe9'), ('cyrillic', 'ж'), ('nel-ls', 'a\x85b c'), ('numeric', '0123'),
         ('boolean-like', 'true'), ('null-like', 'null')]

ALL_OFFSETS = list(range(-14 * 60, 14 * 60 + 1))
OFFSET_SUBSET = sorted(set(s * (h * 60 + m) for s in (1, -1) for h in (0, 3, 13) for m in (0, 30, 45, 49)) | {14 * 60, -14 * 60})
MICROS = [0, 5, 50, 500000, 999999, 123456, 120000, 7000, 100]


def datetimes(offsets=None, micros=None, naive=True):
    instants = [(2000, 2, 29, 12, 30, 45), (1999, 12, 31, 23, 59, 59), (2024, 1, 1, 0, 0, 0)]
    extremes = [(1, 1, 2, 0, 0, 0), (999, 6, 15, 1, 2, 3), (1900, 1, 1, 0, 0, 0), (9999, 12, 30, 23, 59, 59)]
    offsets = OFFSET_SUBSET if offsets is None else offsets
    micros = MICROS if micros is None else micros
    out = []
    for inst in instants:
        for us in micros:
            if naive:
                out.append(('naive|' + us_label(us), _dt.datetime(*inst, us)))
            for off in offsets:
                out.append((tz_label(off) + '|' + us_label(us), _dt.datetime(*inst, us, tz(off))))
    for inst in extremes:
        out.append(('naive|extreme-year|us=0', _dt.datetime(*inst)))
        out.append(('utc|extreme-year|us=0', _dt.datetime(*inst, 0, tz(0))))
    return out


def dates():
    return [('plain', _dt.date(2000, 2, 29)), ('plain', _dt.date(1999, 12, 31)), ('year-1', _dt.date(1, 1, 1)),
            ('year-999', _dt.date(999, 6, 15)), ('year-1900', _dt.date(1900, 1, 1)), ('year-9999', _dt.date(9999, 12, 31)),
            ('plain', _dt.date(2024, 1, 1))]


def times():
    out = []
    for h, m, s in [(0, 0, 0), (23, 59, 59), (12, 30, 45), (1, 2, 3)]:
        for us in MICROS:
            out.append((us_label(us) + ('|midnight' if (h, m, s, us) == (0, 0, 0, 0) else ''), _dt.time(h, m, s, us)))
    return out


def durations():
    td = _dt.timedelta
    vals = [('zero', td(0)), ('us-only', td(microseconds=5)), ('us-only', td(microseconds=50)),
            ('us-only', td(microseconds=500)), ('us-only', td(microseconds=5000)),
            ('us-only', td(microseconds=50000)), ('us-only', td(microseconds=500000)),
            ('us-only', td(microseconds=999999)), ('us-only', td(microseconds=290000)),
            ('sec-frac', td(seconds=1, microseconds=500000)), ('sec-frac', td(seconds=59, microseconds=999999)),
            ('sec-frac', td(seconds=2, microseconds=70)), ('sec-frac', td(seconds=17, microseconds=123456)),
            ('seconds', td(seconds=1)), ('seconds', td(seconds=59)), ('minutes', td(minutes=1)),
            ('minutes', td(minutes=90)), ('hours', td(hours=1)), ('hours', td(hours=23, minutes=59, seconds=59)),
            ('days', td(days=1)), ('days', td(days=400)), ('days-frac', td(days=1, microseconds=1)),
            ('days-hms', td(days=2, hours=3, minutes=4, seconds=5)),
            ('days-hms-frac', td(days=2, hours=3, minutes=4, seconds=5, microseconds=60)),
            ('big', td(days=10 ** 6)), ('big', td(days=999999999)),
            # beyond float precision: total_seconds() cannot tell x.999999 s from x+1 s any more
            ('big-frac', td(days=100000, microseconds=999999)), ('big-frac', td(days=300000, seconds=86399, microseconds=999999)),
            ('big-frac', td(days=10 ** 6, microseconds=1)), ('big-frac', td(days=999999999, microseconds=999999)),
            ('extreme', td.max), ('extreme', td.min), ('negative-big-frac', -td(days=300000, microseconds=999999)),
            ('negative', -td(seconds=1)), ('negative', -td(days=1) + td(seconds=5)), ('negative', -td(days=1)),
            ('negative-frac', -td(microseconds=5)), ('negative-frac', -td(days=3, seconds=7, microseconds=250000))]
    return vals


def byte_chunkings(max_chunks=3, max_len=5, max_total=9):
    """EVERY way of handing a byte string over as 2..max_chunks chunks with chunk lengths 0..max_len (total <= max_total):
    the native form of a ByteArray is a sequence of chunks and encoders work group-wise across chunk borders"""
    import itertools
    data = bytes(range(7, 7 + max_total))
    out = []
    for k in range(2, max_chunks + 1):
        for lens in itertools.product(range(max_len + 1), repeat=k):
            if sum(lens) > max_total or sum(lens) == 0:
                continue
            chunks, pos = [], 0
            for n in lens:
                chunks.append(data[pos:pos + n])
                pos += n
            out.append(('chunks-' + '+'.join(str(n) for n in lens), Chunks(chunks)))
    return out


def byte_strings():
    out = [('empty', b''), ('one-zero', b'\x00'), ('len1', b'a'), ('len2', b'ab'), ('len3', b'abc'), ('len4', b'abcd'),
           ('ramp-256', bytes(range(256))), ('high-bits', b'\xff\xfe\xfd'), ('len57', bytes(range(57))),
           ('len58', bytes(range(58))), ('len100', bytes(range(100))),
           # the native form is a *sequence of chunks*: chunk boundaries off the 3-byte base64 groups, empty chunks
           ('chunks-1+2', Chunks([b'a', b'bc'])), ('chunks-2+2+1', Chunks([b'ab', b'cd', b'e'])),
           ('chunks-0+3+0', Chunks([b'', b'abc', b''])), ('chunks-tuple-4+1', Chunks([b'\xff\x00\x01\x02', b'z'], True)),
           ('chunks-4+1+5', Chunks([b'abcd', b'e', b'fghij'])), ('chunks-1+0+5', Chunks([b'a', b'', b'bcdef']))]
    return out


UUIDS = [('nil', uuid.UUID(int=0)), ('plain', uuid.UUID('12345678-1234-5678-1234-567812345678')),
         ('max', uuid.UUID(int=2 ** 128 - 1)), ('letters', uuid.UUID('abcdefab-cdef-abcd-efab-cdefabcdefab'))]

URIS = [('http', 'http://example.com/a?b=c&d=e#f'), ('urn', 'urn:x:y'), ('relative', '../a/b'),
        ('non-ascii', 'http://example.com/\xe9'), ('space-escaped', 'http://example.com/a%20b')]


def alphabet(prim, full=False):
    """[(label, value)] for a stock Spyne primitive name."""
    if prim in XS_OF and XS_OF[prim] in INT_RANGES:
        return integers(XS_OF[prim], full)
    if prim == 'Decimal':
        return decimals()
    if prim == 'Double':
        return doubles()
    if prim == 'Float':
        return floats32()
    if prim == 'Boolean':
        return [('true', True), ('false', False)]
    if prim in ('Unicode', 'String'):
        return list(TEXTS)
    if prim == 'AnyUri':
        return list(URIS)
    if prim == 'Uuid':
        return list(UUIDS)
    if prim == 'DateTime':
        return datetimes(ALL_OFFSETS if full else None)
    if prim == 'Date':
        return dates()
    if prim == 'Time':
        return times()
    if prim == 'Duration':
        return durations()
    if prim == 'ByteArray':
        return byte_strings()
    raise KeyError(prim)
