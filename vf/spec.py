"""Program specs: JSON description of a Spyne application, built into *fresh* Spyne classes.

Type reference (JSON list):
  ["p", "Integer", {attrs}]       primitive (stock class if attrs empty, else T(**attrs))
  ["c", "ClassName", {attrs}]     complex class of this program (customized if attrs)
  ["a", T, {attrs}]               Array(T, **attrs)   (wrapped array)
  ["xa", T, {attrs}]              XmlAttribute(T, **attrs)
  ["xd", T]                       XmlData(T)
  ["e", "EnumName", {attrs}]      Enum of this program
  ["m", T]                        Mandatory(T)
Attribute values are tagged JSON (vf.tagged); "unbounded" stands for Decimal('inf').

Program:
  {"tns": str, "name": str?,
   "enums": {name: [values]},
   "classes": [{"n": name, "ns": str|None, "base": name|None, "fields": [[fname, T], ...], "attrs": {...}}],
   "faults": [{"n": name, "ns":..., "code": str|None}],
   "services": [{"n": name, "methods": [{"n": name, "args": [[aname, T],...], "ret": T | [T,..] | None,
                 "kw": {"_body_style": ..., "_operation_name": ..., ...},
                 "in_header": [cls names] | None, "out_header": [...], "throws": [fault names]}],
                 "port_types": [...]? }]}
"""
import decimal

from vf import tagged
from vf.tagged import Obj, Chunks


def _attrs(a):
    out = {}
    for k, v in (a or {}).items():
        if k.startswith('_'):
            continue     # '_from' / '_own': derivation from a named simple type, handled by T()
        if k == 'pa_soap11':
            # protocol-specific attribute overrides, keyed by the protocol class (not expressible in JSON)
            from spyne.protocol.soap import Soap11
            out['prot_attrs'] = {Soap11: dict(v)}
            continue
        if k in ('child_attrs', 'child_attrs_all'):
            out[k] = {fn: _attrs(fa) for fn, fa in v.items()} if k == 'child_attrs' else _attrs(v)
            continue
        if v == 'unbounded':
            v = decimal.Decimal('inf')
        else:
            v = tagged.dec(v)
        out[k] = v
    return out


class Recorder(object):
    def __init__(self):
        self.calls = []      # (method name, args tuple, in_header)
        self.script = {}     # method name -> ('ret', v) | ('raise', exc factory) | ('gen', [v..])
        self.events = []

    def reset(self):
        del self.calls[:]
        self.script.clear()
        del self.events[:]


class Built(object):
    def __init__(self, program):
        self.program = program
        self.tns = program.get('tns', 'urn:vf')
        self.rec = Recorder()
        self.classes = {}    # name -> spyne class
        self.enums = {}
        self.faults = {}
        self.cdefs = {c['n']: c for c in program.get('classes', [])}
        self.services = []
        self.methods = {}    # method name -> method spec
        self.rev = {}
        self.method_evmgrs = {}

    # ---- field info from the spec (reference side, independent of spyne introspection)
    def flat_fields(self, cname):
        c = self.cdefs[cname]
        out = []
        if c.get('base'):
            out.extend(self.flat_fields(c['base']))
        out.extend(c['fields'])
        return out

    def is_subclass(self, sub, base):
        while sub is not None:
            if sub == base:
                return True
            sub = self.cdefs[sub].get('base')
        return False

    def subclasses(self, base):
        return [n for n in self.cdefs if self.is_subclass(n, base)]

    def spec_name_of(self, inst_or_cls):
        cls = inst_or_cls if isinstance(inst_or_cls, type) else type(inst_or_cls)
        for c in cls.__mro__:
            n = self.rev.get(c)
            if n is not None:
                return n
            o = getattr(c, '__orig__', None)
            if o is not None and o in self.rev:
                return self.rev[o]
        return None


def build(program):
    import spyne.model.primitive as P
    from spyne.model.binary import ByteArray
    from spyne.model.complex import ComplexModel, ComplexModelMeta, Array, XmlAttribute, XmlData, \
        Mandatory, Iterable
    from spyne.model.enum import Enum
    from spyne.model.fault import Fault
    from spyne.decorator import rpc
    from spyne.service import ServiceBaseMeta
    try:
        from spyne.service import Service as ServiceBase
    except ImportError:
        from spyne.service import ServiceBase
    from spyne.model.primitive import number as N

    b = Built(program)
    prims = {}
    for name in ('Integer', 'Long', 'Int', 'Short', 'Byte', 'Decimal', 'Double', 'Float', 'Boolean',
                 'Unicode', 'String', 'AnyUri', 'Uuid', 'DateTime', 'Date', 'Time', 'Duration',
                 'Integer8', 'Integer16', 'Integer32', 'Integer64', 'AnyDict', 'AnyXml', 'Any'):
        prims[name] = getattr(P, name)
    for name in ('UnsignedLong', 'UnsignedInt', 'UnsignedShort', 'UnsignedByte', 'UnsignedInteger',
                 'UnsignedInteger8', 'UnsignedInteger16', 'UnsignedInteger32', 'UnsignedInteger64',
                 'NonNegativeInteger', 'PositiveInteger'):
        if hasattr(N, name):
            prims[name] = getattr(N, name)
    prims['ByteArray'] = ByteArray

    for en, vals in (program.get('enums') or {}).items():
        b.enums[en] = Enum(*vals, type_name=en)

    # named simple types (own type name, possibly own namespace): {id: {'p': prim, 'attrs': {...}, 'type_name': .., 'ns': ..}}
    b.simples = {}
    for sid, sd in (program.get('simples') or {}).items():
        kw = _attrs(sd.get('attrs'))
        kw['type_name'] = sd.get('type_name', sid)
        st = prims[sd['p']](**kw)
        if sd.get('ns'):
            st.__namespace__ = sd['ns']
        b.simples[sid] = st

    def T(t):
        k = t[0]
        if k == 'p':
            ta = t[2] if len(t) > 2 and t[2] else {}
            if ta.get('_from'):
                # the named simple type itself, or a further restriction of it; t[2] holds the merged facets for the
                # reference side, '_own' the ones this derivation adds
                own = _attrs(ta.get('_own'))
                return b.simples[ta['_from']](**own) if own else b.simples[ta['_from']]
            cls = prims[t[1]]
            if ta.get('_steps'):
                # an anonymous customisation made in several steps: T(**step1)(**step2)...; t[2] holds the merged facets
                for st in ta['_steps']:
                    cls = cls(**_attrs(st))
                return cls
            a = _attrs(t[2] if len(t) > 2 else None)
            return cls(**a) if a else cls
        if k == 'c':
            cls = b.classes[t[1]]
            a = _attrs(t[2] if len(t) > 2 else None)
            return cls.customize(**a) if a else cls
        if k == 'a':
            a = _attrs(t[2] if len(t) > 2 else None)
            return Array(T(t[1]), **a)
        if k == 'it':
            a = _attrs(t[2] if len(t) > 2 else None)
            return Iterable(T(t[1]), **a)
        if k == 'xa':
            a = _attrs(t[2] if len(t) > 2 else None)
            return XmlAttribute(T(t[1]), **a)
        if k == 'xd':
            return XmlData(T(t[1]))
        if k == 'e':
            cls = b.enums[t[1]]
            a = _attrs(t[2] if len(t) > 2 else None)
            return cls.customize(**a) if a else cls
        if k == 'm':
            return Mandatory(T(t[1]))
        raise ValueError(t)
    b.T = T

    for c in program.get('classes', []):
        base = b.classes[c['base']] if c.get('base') else ComplexModel
        ns = {'_type_info': [(fn, T(ft)) for fn, ft in c['fields']]}
        if c.get('ns') is not None:
            ns['__namespace__'] = c['ns']
        elif not c.get('base'):
            ns['__namespace__'] = b.tns
        if c.get('attrs'):
            ns['Attributes'] = type('Attributes', (base.Attributes,), _attrs(c['attrs']))
        cls = ComplexModelMeta(str(c['n']), (base,), ns)
        b.classes[c['n']] = cls
        b.rev[cls] = c['n']

    for f in program.get('faults', []):
        d = {'__namespace__': f.get('ns') or b.tns}
        if f.get('code') is not None:
            d['CODE'] = f['code']
        b.faults[f['n']] = type(str(f['n']), (Fault,), d)

    rec = b.rec

    def make_fn(mname, nargs):
        def fn(ctx, *args):
            rec.calls.append((mname, args, ctx.in_header))
            act = rec.script.get(mname)
            oh = rec.script.get(('out_header', mname))
            if oh is not None:
                ctx.out_header = oh
            if act is None:
                return None
            if act[0] == 'ret':
                return act[1]
            if act[0] == 'raise':
                raise act[1]()
            if act[0] == 'gen':
                return (x for x in act[1])
            if act[0] == 'call':
                return act[1](ctx, *args)
            raise ValueError(act)
        fn.__name__ = str(mname)
        return fn

    for s in program.get('services', []):
        d = {}
        if s.get('port_types'):
            d['__port_types__'] = tuple(s['port_types'])
        if s.get('tns'):
            d['__tns__'] = s['tns']
        if s.get('aux'):
            from spyne.auxproc.sync import SyncAuxProc
            d['__aux__'] = SyncAuxProc()
        # service-wide header defaults (methods marked 'header_from_service' do not declare headers of their own)
        if s.get('in_header'):
            d['__in_header__'] = tuple(b.classes[h] for h in s['in_header'])
        if s.get('out_header'):
            d['__out_header__'] = tuple(b.classes[h] for h in s['out_header'])
        for m in s['methods']:
            kw = dict(m.get('kw') or {})
            ret = m.get('ret')
            if ret is not None:
                if ret and isinstance(ret[0], list):
                    kw['_returns'] = [T(r) for r in ret]
                else:
                    kw['_returns'] = T(ret)
            if m.get('in_header') and not m.get('header_from_service'):
                hs = [b.classes[h] for h in m['in_header']]
                kw['_in_header'] = tuple(hs)
            if m.get('out_header') and not m.get('header_from_service'):
                hs = [b.classes[h] for h in m['out_header']]
                kw['_out_header'] = tuple(hs)
            if m.get('throws'):
                kw['_throws'] = [b.faults[x] for x in m['throws']]
            if m.get('patterns'):
                from spyne.protocol.http import HttpPattern
                kw['_patterns'] = [HttpPattern(p.get('address'), verb=p.get('verb'), host=p.get('host')) for p in m['patterns']]
            if m.get('evmgr'):
                from spyne.evmgr import EventManager
                em = EventManager(None)
                b.method_evmgrs[m.get('key', m['n'])] = em
                kw['_evmgr'] = em
            anames = [a[0] for a in m.get('args', [])]
            atypes = [T(a[1]) for a in m.get('args', [])]
            key = m.get('key', m['n'])
            fn = make_fn(key, len(anames))
            d[str(m['n'])] = rpc(*atypes, _args=anames, **kw)(fn)
            b.methods[key] = m
        base = ServiceBase
        if s.get('base'):
            base = [x for x in b.services if x.__name__ == s['base']][0]
        svc = ServiceBaseMeta(str(s['n']), (base,), d)
        b.services.append(svc)
    return b


def make_app(b, in_protocol, out_protocol, services=None, name=None):
    from spyne.application import Application
    return Application(services if services is not None else b.services, tns=b.tns,
                       name=name or b.program.get('name', 'App'),
                       in_protocol=in_protocol, out_protocol=out_protocol)


# ---------------------------------------------------------------- value conversion

def to_native(b, t, v, memo=None):
    """reference value (Obj / list / scalar) -> what user code would hold (spyne instances).  Objs carrying the same
    alias become the same instance within one call (memo may be shared across calls by the caller)"""
    if v is None:
        return None
    if memo is None:
        memo = {}
    k = t[0]
    if k in ('xa', 'xd', 'm'):
        return to_native(b, t[1], v, memo)
    if k == 'a' or k == 'it':
        return [to_native(b, t[1], x, memo) for x in v]
    if isinstance(v, (list, tuple)) and not isinstance(v, (bytes,)) and k in ('p', 'c', 'e') and _multi(t):
        t1 = [t[0], t[1], dict((kk, vv) for kk, vv in (t[2] or {}).items() if kk != 'max_occurs')]
        return [to_native(b, t1, x, memo) for x in v]
    if k == 'c':
        assert isinstance(v, Obj), v
        if v.alias is not None and v.alias in memo:
            return memo[v.alias]
        cls = b.classes[v.cls]
        inst = cls()
        if v.alias is not None:
            memo[v.alias] = inst
        ftypes = dict(b.flat_fields(v.cls))
        for fk, fv in v.f.items():
            setattr(inst, fk, to_native(b, ftypes[fk], fv, memo))
        return inst
    if k == 'p' and t[1] == 'ByteArray' and isinstance(v, Chunks):
        return v.native()
    if k == 'p' and t[1] == 'ByteArray' and isinstance(v, (bytes, bytearray)):
        return [bytes(v)]
    if k == 'e':
        return getattr(b.enums[t[1]], v)
    return v


def _multi(t):
    a = t[2] if len(t) > 2 and t[2] else {}
    mo = a.get('max_occurs', 1)
    return mo == 'unbounded' or (isinstance(mo, int) and mo > 1)


def from_native(b, t, v):
    """what user code received -> reference value; class names are runtime classes."""
    if v is None:
        return None
    k = t[0]
    if k in ('xa', 'xd', 'm'):
        return from_native(b, t[1], v)
    if k == 'a' or k == 'it':
        return [from_native(b, t[1], x) for x in v]
    if k in ('p', 'c', 'e') and _multi(t) and isinstance(v, (list, tuple)) \
            and not (k == 'p' and t[1] == 'ByteArray' and v and isinstance(v[0], (bytes, bytearray))):
        t1 = [t[0], t[1], dict((kk, vv) for kk, vv in (t[2] or {}).items() if kk != 'max_occurs')]
        return [from_native(b, t1, x) for x in v]
    if k == 'c':
        n = b.spec_name_of(v)
        if n is None:
            return ('!unexpected', type(v).__name__, repr(v)[:80])
        out = {}
        for fk, ft in b.flat_fields(n):
            out[fk] = from_native(b, ft, getattr(v, fk, None))
        return Obj(n, **out)
    if k == 'p' and t[1] == 'ByteArray':
        if isinstance(v, (list, tuple)):
            try:
                return b''.join(v)
            except TypeError:
                return ('!unexpected', type(v).__name__, repr(v)[:80])
        return v
    if k == 'e':
        for name in b.program['enums'][t[1]]:
            if getattr(b.enums[t[1]], name) is v:
                return name
        return ('!unexpected', type(v).__name__, repr(v)[:80])
    return v
