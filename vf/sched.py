"""E2 - stateless exploration of thread interleavings of real code under a controlled scheduler, with iterative
preemption bounding (Musuvathi & Qadeer).  Real threads; a baton (one semaphore per thread) lets exactly one run;
scheduling points are 'line' trace events inside a set of files plus the operations of cooperative locks; an execution
is determined by its list of choices; choice 0 = keep running the current thread (canonical order: running thread
first if still enabled, then ascending thread ids)."""
import sys
import threading


class Deadlock(Exception):
    pass


class ReplayDivergence(Exception):
    pass


class Horizon(Exception):
    pass


class Point(object):
    __slots__ = ('n_enabled', 'choice', 'running_enabled', 'tid', 'where')

    def __init__(self, n_enabled, choice, running_enabled, tid, where):
        self.n_enabled, self.choice, self.running_enabled, self.tid, self.where = n_enabled, choice, running_enabled, tid, where


class Scheduler(object):
    def __init__(self, nthreads, prefix, point_files, horizon=20000, record_where=True):
        self.n = nthreads
        self.prefix = list(prefix)
        self.files = point_files
        self.horizon = horizon
        self.sems = [threading.Semaphore(0) for _ in range(nthreads)]
        self.status = ['ready'] * nthreads       # ready | blocked | done
        self.blocked_on = [None] * nthreads
        self.current = None
        self.points = []
        self.choices = []
        self.error = None
        self.tids = {}                           # thread ident -> tid
        self.done_evt = threading.Event()
        self.record_where = record_where
        self.switches_in_shared = 0
        self.state_hashes = set()
        self.last_where = [None] * nthreads

    # ---- choice
    def _choose(self, enabled, running_enabled, tid, where):
        i = len(self.choices)
        if i < len(self.prefix):
            c = self.prefix[i]
            if c >= len(enabled):
                raise ReplayDivergence('choice %d at point %d but only %d threads are enabled (%s)' % (c, i, len(enabled), where))
        else:
            c = 0
        self.choices.append(c)
        self.points.append(Point(len(enabled), c, running_enabled, tid, where if self.record_where else None))
        if len(self.points) > self.horizon:
            raise Horizon('more than %d scheduling steps' % self.horizon)
        self.state_hashes.add(hash((tuple(self.last_where), tuple(self.status))))
        return enabled[c]

    def _enabled_others(self, tid):
        return [t for t in range(self.n) if t != tid and self.status[t] == 'ready']

    def my_tid(self):
        return self.tids.get(threading.get_ident())

    # ---- scheduling point of a running thread
    def point(self, tid, where):
        if self.error is not None:
            raise SystemExit
        self.last_where[tid] = where
        enabled = [tid] + self._enabled_others(tid)
        try:
            nxt = self._choose(enabled, True, tid, where)
        except Exception as e:
            self._fail(e)
            raise SystemExit
        if nxt != tid:
            self.switches_in_shared += 1
            self._switch(tid, nxt)

    def _switch(self, tid, nxt):
        self.current = nxt
        self.sems[nxt].release()
        self.sems[tid].acquire()
        if self.error is not None:
            raise SystemExit

    # ---- the running thread cannot continue (blocked or finished): pick another one
    def yield_blocked(self, tid, where):
        while True:
            enabled = self._enabled_others(tid)
            if not enabled:
                self._fail(Deadlock('no enabled thread; statuses %s, blocked on %s' % (self.status, [getattr(b, 'name', None) for b in self.blocked_on])))
                raise SystemExit
            try:
                nxt = self._choose(enabled, False, tid, where)
            except Exception as e:
                self._fail(e)
                raise SystemExit
            self._switch(tid, nxt)
            if self.status[tid] == 'ready':
                return

    def finish(self, tid):
        self.status[tid] = 'done'
        enabled = self._enabled_others(tid)
        if not enabled:
            if any(s == 'blocked' for s in self.status):
                self._fail(Deadlock('threads %s blocked forever' % [t for t in range(self.n) if self.status[t] == 'blocked']))
            self.done_evt.set()
            return
        try:
            nxt = self._choose(enabled, False, tid, 'thread-exit')
        except Exception as e:
            self._fail(e)
            return
        self.current = nxt
        self.sems[nxt].release()

    def _fail(self, e):
        if self.error is None:
            self.error = e
        self.done_evt.set()
        for s in self.sems:
            s.release()

    # ---- tracing
    def make_tracer(self, tid):
        files = self.files
        sched = self

        def local(frame, event, arg):
            if event == 'line':
                sched.point(tid, (frame.f_code.co_filename.rsplit('/spyne/', 1)[-1], frame.f_lineno))
            return local

        def glob(frame, event, arg):
            if event == 'call' and frame.f_code.co_filename in files:
                return local
            return None
        return glob

    # ---- running
    def run(self, bodies, timeout=60):
        """bodies: list of callables; returns list of per-thread results / exceptions"""
        results = [None] * self.n
        excs = [None] * self.n

        def wrap(tid):
            self.tids[threading.get_ident()] = tid
            self.sems[tid].acquire()
            if self.error is not None:
                return
            sys.settrace(self.make_tracer(tid))
            try:
                results[tid] = bodies[tid]()
            except SystemExit:
                pass
            except BaseException as e:   # noqa
                excs[tid] = e
            finally:
                sys.settrace(None)
                if self.error is None:
                    self.finish(tid)
        threads = [threading.Thread(target=wrap, args=(i,), daemon=True) for i in range(self.n)]
        for t in threads:
            t.start()
        self.current = 0
        self.sems[0].release()
        if not self.done_evt.wait(timeout):
            self._fail(Deadlock('execution did not finish within %s s (hang outside the cooperative locks?)' % timeout))
        for t in threads:
            t.join(5)
        return results, excs


class CoopLock(object):
    """replacement for threading.Lock / RLock in the code under exploration"""

    def __init__(self, get_sched, name='lock', reentrant=False):
        self.get_sched = get_sched
        self.owner = None
        self.depth = 0
        self.name = name
        self.reentrant = reentrant

    def acquire(self, blocking=True, timeout=-1):
        s = self.get_sched()
        tid = s.my_tid() if s is not None else None
        if tid is None:
            self.owner = 'outside'
            self.depth += 1
            return True
        s.point(tid, ('lock-acquire', self.name))
        if self.reentrant and self.owner == tid:
            self.depth += 1
            return True
        while self.owner is not None:
            s.status[tid] = 'blocked'
            s.blocked_on[tid] = self
            s.yield_blocked(tid, ('blocked', self.name))
        self.owner = tid
        self.depth = 1
        return True

    def release(self):
        s = self.get_sched()
        self.depth -= 1
        if self.depth > 0:
            return
        self.owner = None
        if s is not None:
            for t in range(s.n):
                if s.status[t] == 'blocked' and s.blocked_on[t] is self:
                    s.status[t] = 'ready'
                    s.blocked_on[t] = None
            tid = s.my_tid()
            if tid is not None:
                s.point(tid, ('lock-release', self.name))

    def __enter__(self):
        self.acquire()
        return self

    def __exit__(self, *a):
        self.release()

    def locked(self):
        return self.owner is not None


class Execution(object):
    def __init__(self, choices, points, results, excs, error, sched):
        self.choices, self.points, self.results, self.excs, self.error = choices, points, results, excs, error
        self.switches = sched.switches_in_shared
        self.state_hashes = sched.state_hashes


def explore(run_prefix, check, bound, start_prefix=(), start_cost=0, budget=None):
    """iterative context bounding below start_prefix.  run_prefix(prefix) -> Execution; check(execution) is called for
    every complete execution.  Yields nothing; returns (executions, steps)"""
    stats = {'executions': 0, 'steps': 0, 'capped': False}
    stack = [(list(start_prefix), start_cost)]
    while stack:
        prefix, cost0 = stack.pop()
        x = run_prefix(prefix)
        stats['executions'] += 1
        stats['steps'] += len(x.points)
        check(x, prefix)
        if budget is not None and stats['executions'] >= budget:
            stats['capped'] = True
            break
        cost = cost0
        # cost of the prefix itself was accounted by the caller; walk the points after the prefix
        for i in range(len(prefix), len(x.points)):
            p = x.points[i]
            for alt in range(1, p.n_enabled):
                c = cost + (1 if p.running_enabled else 0)
                if c > bound:
                    continue
                stack.append((x.choices[:i] + [alt], c))
    return stats
