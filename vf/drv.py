"""Drivers: run one request through the real ServerBase pipeline or the real WsgiApplication."""
import io
import sys
import traceback


class Outcome(object):
    """What one request produced."""
    __slots__ = ('out', 'fault', 'escaped', 'escaped_where', 'ctx', 'status', 'headers', 'stage',
                 'start_calls', 'chunks', 'trace', 'closed')

    def __init__(self):
        self.out = None          # response bytes
        self.fault = None        # ctx.out_error / in_error (spyne Fault) or None
        self.escaped = None      # exception that escaped the pipeline
        self.escaped_where = None
        self.ctx = None
        self.status = None
        self.headers = None
        self.stage = None
        self.start_calls = 0
        self.chunks = None
        self.trace = None
        self.closed = None

    @property
    def faultcode(self):
        return None if self.fault is None else self.fault.faultcode


def innermost_spyne_frame(exc):
    tb = exc.__traceback__
    where = None
    while tb is not None:
        fn = tb.tb_frame.f_code.co_filename
        if '/spyne/' in fn and '/spyne/test/' not in fn:
            where = '%s:%s' % (fn.split('/spyne/', 1)[1], tb.tb_frame.f_code.co_name)
        tb = tb.tb_next
    return where or 'outside-spyne'


def make_server(app):
    from spyne.server import ServerBase
    return ServerBase(app)


def call_server(server, data, charset=None, close=True):
    """Drive ServerBase exactly as a transport does (cf. WsgiApplication.handle_rpc)."""
    from spyne import MethodContext
    o = Outcome()
    try:
        o.stage = 'context'
        ctx = MethodContext(server, MethodContext.SERVER)
        ctx.in_string = [data] if isinstance(data, (bytes, bytearray)) else data
        o.stage = 'generate_contexts'
        contexts = server.generate_contexts(ctx, charset)
        p_ctx = contexts[0]
        o.ctx = p_ctx
        if p_ctx.in_error is None:
            o.stage = 'get_in_object'
            server.get_in_object(p_ctx)
        if p_ctx.in_error is None:
            o.stage = 'get_out_object'
            server.get_out_object(p_ctx)
        o.fault = p_ctx.in_error or p_ctx.out_error
        o.stage = 'get_out_string'
        server.get_out_string(p_ctx)
        o.out = b''.join(p_ctx.out_string)
        o.fault = p_ctx.in_error or p_ctx.out_error
        if len(contexts) > 1:
            # auxiliary method contexts: processed after the primary one, as the transports do
            from spyne.auxproc import process_contexts
            o.stage = 'auxiliary'
            process_contexts(server, contexts[1:], p_ctx, error=None)
        if close:
            o.stage = 'close'
            p_ctx.close()
        o.stage = 'done'
    except Exception as e:
        o.escaped = e
        o.escaped_where = innermost_spyne_frame(e)
    return o


class CountingInput(object):
    """wsgi.input that records what was asked for and what was returned."""

    def __init__(self, data, short=False, eof_at=None):
        self.data = data
        self.pos = 0
        self.short = short
        self.eof_at = eof_at
        self.asked = []
        self.given = 0

    def read(self, n=-1):
        self.asked.append(n)
        end = len(self.data) if self.eof_at is None else min(len(self.data), self.eof_at)
        if n is None or n < 0:
            n = end - self.pos
        if self.short and n > 1:
            n = 1
        chunk = self.data[self.pos:min(end, self.pos + n)]
        self.pos += len(chunk)
        self.given += len(chunk)
        return chunk

    def readline(self, n=-1):
        return self.read(n)

    def readlines(self, hint=-1):
        return [self.read()]

    def __iter__(self):
        d = self.read()
        if d:
            yield d


def environ(method='POST', path='/', query='', body=b'', content_type='text/xml; charset=utf-8',
            content_length='auto', headers=None, stream=None):
    env = {
        'REQUEST_METHOD': method, 'SCRIPT_NAME': '', 'PATH_INFO': path, 'QUERY_STRING': query,
        'SERVER_NAME': 'localhost', 'SERVER_PORT': '80', 'SERVER_PROTOCOL': 'HTTP/1.1',
        'wsgi.version': (1, 0), 'wsgi.url_scheme': 'http',
        'wsgi.input': stream if stream is not None else CountingInput(body),
        'wsgi.errors': io.StringIO(), 'wsgi.multithread': True, 'wsgi.multiprocess': False,
        'wsgi.run_once': False,
    }
    if content_type is not None:
        env['CONTENT_TYPE'] = content_type
    if content_length == 'auto':
        env['CONTENT_LENGTH'] = str(len(body))
    elif content_length is not None:
        env['CONTENT_LENGTH'] = content_length
    for k, v in (headers or {}).items():
        env['HTTP_' + k.upper().replace('-', '_')] = v
    return env


def call_wsgi(wapp, env, abort_after=None, trace=None):
    """Call the WSGI callable, iterate the result (optionally aborting after k chunks), close it."""
    o = Outcome()
    o.trace = trace if trace is not None else []
    started = []

    def start_response(status, headers, exc_info=None):
        started.append((status, headers))
        o.trace.append(('START', status))
        return lambda data: o.trace.append(('WRITE', len(data)))

    chunks = []
    try:
        o.stage = 'call'
        it = wapp(env, start_response)
        o.stage = 'iterate'
        try:
            n = 0
            if abort_after is None or abort_after > 0:
                for c in it:
                    chunks.append(c)
                    o.trace.append(('CHUNK', len(c) if hasattr(c, '__len__') else -1))
                    n += 1
                    if abort_after is not None and n >= abort_after:
                        break
        finally:
            o.stage = 'close'
            if hasattr(it, 'close'):
                it.close()
                o.trace.append(('ITERCLOSE',))
        o.stage = 'done'
    except Exception as e:
        o.escaped = e
        o.escaped_where = innermost_spyne_frame(e)
    o.start_calls = len(started)
    if started:
        o.status, o.headers = started[0]
    o.chunks = chunks
    try:
        o.out = b''.join(chunks)
    except TypeError:
        o.out = None
    return o


def published_schema_docs(app):
    """The XML Schema documents Spyne publishes for app, serialised to bytes (one per namespace)."""
    from lxml import etree
    from spyne.interface.xml_schema import XmlSchema
    xs = XmlSchema(app.interface)
    xs.build_interface_document()
    docs = xs.get_interface_document()
    return [etree.tostring(d) for d in docs.values()]


def published_wsdl(app, url='http://localhost/app'):
    """WSDL bytes as a WSGI client would get them (GET ?wsdl on a fresh WsgiApplication)"""
    from spyne.server.wsgi import WsgiApplication
    w = WsgiApplication(app)
    env = environ('GET', '/app', 'wsdl', b'', content_type=None, content_length=None)
    env['HTTP_HOST'] = 'localhost'
    o = call_wsgi(w, env)
    if o.escaped is not None:
        raise o.escaped
    return o.out
