"""Shared runner: shards over worker processes, evidence, signatures, two-stage violations,
known findings.  Usage:  python -m vf.runner <ID> --tier quick|thorough | --replay FILE"""
import argparse
import collections
import hashlib
import importlib
import json
import multiprocessing
import os
import random
import subprocess
import sys
import time

VERIF = os.path.dirname(os.path.dirname(os.path.abspath(__file__)))
PY = '/venv/bin/python'


def repo_dir():
    return os.path.abspath(os.environ.get('VERIF_REPO', '/repo'))


def ensure_env():
    """Re-exec once so that the hash seed is fixed and spyne is imported from VERIF_REPO."""
    repo = repo_dir()
    want_pp = repo + os.pathsep + VERIF
    if os.environ.get('VF_ENV_READY') != '1':
        env = dict(os.environ)
        env['VF_ENV_READY'] = '1'
        env.setdefault('PYTHONHASHSEED', '0')
        env['PYTHONPATH'] = want_pp
        env['PYTHONWARNINGS'] = 'ignore'
        env['SPYNE_VERIF'] = '1'
        env['PYTHONDONTWRITEBYTECODE'] = '1'
        os.execve(PY, [PY, '-m', 'vf.runner'] + sys.argv[1:], env)
    import warnings
    warnings.simplefilter('ignore')
    import logging
    logging.disable(logging.CRITICAL)
    import spyne
    here = os.path.abspath(spyne.__file__)
    if not here.startswith(repo + os.sep):
        print('MACHINERY-ERROR: spyne imported from %s, not from %s' % (here, repo))
        sys.exit(2)


def load_known(pid):
    p = os.path.join(VERIF, 'known_findings.json')
    if not os.path.exists(p):
        return {}
    out = {}
    for e in json.load(open(p)).get('entries', []):
        if e.get('property') == pid and e.get('kind') == 'finding':
            out[e['signature']] = e
    return out


def sig_file(sig):
    return hashlib.sha1(sig.encode('utf8')).hexdigest()[:16]


def _init_worker():
    import warnings
    warnings.simplefilter('ignore')
    import logging
    logging.disable(logging.CRITICAL)


def _run_shard(args):
    modname, shard = args
    mod = importlib.import_module(modname)
    t0 = time.time()
    try:
        r = mod.run_shard(shard)
    except Exception:
        import traceback
        return {'harness_error': traceback.format_exc(), 'shard': shard}
    r['wall'] = time.time() - t0
    # every case remembers the shard it was found in: a violation that needs the earlier cases of its shard (state kept
    # by the code under test between calls) is confirmed by replaying that shard
    for v in r.get('violations', []):
        if isinstance(v.get('case'), dict) and not isinstance(v['case'].get('shard'), dict):
            v['case']['_shard'] = shard
    return r


class Agg(object):
    def __init__(self):
        self.evaluations = 0
        self.nontrivial = 0
        self.outcomes = collections.Counter()
        self.cov = collections.Counter()
        self.violations = {}    # sig -> (size, violation)
        self.vcount = collections.Counter()
        self.samples = []
        self.harness_errors = []
        self.notes = collections.Counter()
        self.sets = collections.defaultdict(set)

    def add(self, r):
        if 'harness_error' in r:
            self.harness_errors.append(r)
            return
        self.evaluations += r.get('evaluations', 0)
        self.nontrivial += r.get('nontrivial', 0)
        self.outcomes.update(r.get('outcomes', {}))
        self.cov.update(r.get('cov', {}))
        self.notes.update(r.get('notes', {}))
        for k, v in r.get('sets', {}).items():
            self.sets[k].update(v)
        for v in r.get('violations', []):
            self.vcount[v['sig']] += v.get('count', 1)
            size = len(json.dumps(v['case'], sort_keys=True))
            cur = self.violations.get(v['sig'])
            if cur is None or (size, json.dumps(v['case'], sort_keys=True)) < (cur[0], json.dumps(cur[1]['case'], sort_keys=True)):
                self.violations[v['sig']] = (size, v)
        for s in r.get('samples', []):
            if len(self.samples) < 6:
                self.samples.append(s)


def stage2(pid, path):
    """Re-execute one replay file in a fresh interpreter; True iff the violation reproduces."""
    env = dict(os.environ)
    env['VF_ENV_READY'] = '0'
    p = subprocess.run([PY, '-m', 'vf.runner', pid, '--replay', path, '--stage2'], cwd=VERIF,
                       env=env, stdout=subprocess.PIPE, stderr=subprocess.STDOUT, text=True)
    return p.returncode == 1, p.stdout


def tree_identity():
    """which source tree this run exercised (path, HEAD, whether the working tree differs from HEAD)"""
    import subprocess
    repo = os.environ.get('VERIF_REPO', '/repo')
    out = {'path': repo}
    try:
        out['head'] = subprocess.run(['git', '-C', repo, 'rev-parse', '--short', 'HEAD'], stdout=subprocess.PIPE, stderr=subprocess.DEVNULL, text=True).stdout.strip()
        st = subprocess.run(['git', '-C', repo, 'status', '--porcelain', '--', 'spyne'], stdout=subprocess.PIPE, stderr=subprocess.DEVNULL, text=True).stdout
        out['working_tree_modified'] = bool(st.strip())
    except Exception as e:
        out['error'] = repr(e)
    return out


def main():
    ap = argparse.ArgumentParser()
    ap.add_argument('pid')
    ap.add_argument('--tier', default=os.environ.get('VERIF_TIER', 'quick'))
    ap.add_argument('--replay')
    ap.add_argument('--stage2', action='store_true')
    ap.add_argument('--jobs', type=int, default=int(os.environ.get('VERIF_JOBS', '16')))
    ap.add_argument('--only', help='restrict to shards whose JSON contains this text (debugging)')
    a = ap.parse_args()
    ensure_env()
    pid = a.pid.upper()
    modname = 'vf.props.%s' % pid.lower()
    mod = importlib.import_module(modname)
    seed = int(os.environ.get('VERIF_SEED', '0') or 0)

    if a.replay:
        doc = json.load(open(a.replay))
        vs = mod.replay(doc['case'])
        want = doc.get('sig')
        hit = [v for v in vs if want is None or v['sig'] == want]
        hist_shard = None
        if isinstance(doc['case'], dict):
            hist_shard = doc['case'].get('shard') if isinstance(doc['case'].get('shard'), dict) else doc['case'].get('_shard')
        if not hit and isinstance(hist_shard, dict):
            # the case alone does not show it: replay it with its history - the whole shard it belongs to, in shard order,
            # in this fresh interpreter (defects that need earlier calls on the same objects: caches, registries)
            r = mod.run_shard(hist_shard)
            hit = [v for v in r.get('violations', []) if want is None or v['sig'] == want]
            if hit:
                print('(reproduced with its history: the shard of the case was replayed from its start)')
        if hit:
            print('VIOLATION property=%s replay=%s' % (pid, os.path.abspath(a.replay)))
            print('  signature: %s' % hit[0]['sig'])
            print('  what: %s' % hit[0]['what'])
            sys.exit(1)
        if vs:
            print('replay produced other signatures: %s' % [v['sig'] for v in vs])
        else:
            print('replay: property holds on this case')
        sys.exit(0)

    tier = a.tier
    assert tier in ('quick', 'thorough')
    t0 = time.time()
    shards = list(mod.shards(tier))
    if a.only:
        shards = [s for s in shards if a.only in json.dumps(s)]
    random.Random(seed).shuffle(shards)
    agg = Agg()
    jobs = max(1, min(a.jobs, len(shards)))
    if getattr(mod, 'SERIAL', False) or jobs == 1:
        _init_worker()
        for s in shards:
            agg.add(_run_shard((modname, s)))
    else:
        ctx = multiprocessing.get_context('fork')
        with ctx.Pool(jobs, initializer=_init_worker, maxtasksperchild=getattr(mod, 'MAXTASKS', None)) as pool:
            for r in pool.imap_unordered(_run_shard, [(modname, s) for s in shards], chunksize=1):
                agg.add(r)

    known = load_known(pid)
    exit_code = 0
    lines = []
    if agg.harness_errors:
        for h in agg.harness_errors[:5]:
            lines.append('HARNESS-ERROR property=%s shard=%s\n%s' % (pid, json.dumps(h['shard'])[:300], h['harness_error']))
        exit_code = 2

    rdir = os.path.join(VERIF, 'replays', pid)
    confirmed_unknown = 0
    known_seen = []
    unknown = []
    for sig in sorted(agg.violations):
        size, v = agg.violations[sig]
        if sig in known:
            known_seen.append(sig)
        else:
            unknown.append(sig)
    for sig in known_seen:
        lines.append('KNOWN-FINDING: property=%s %s [%s] (%d cases)' % (pid, known[sig].get('what', ''), sig, agg.vcount[sig]))
    MAX_CONFIRM = 12
    not_repro = []
    # the signatures to confirm are taken round-robin over the violation kinds (second field of a signature), so that one
    # numerous kind does not use up the budget; when nothing has been confirmed the search goes on up to three budgets
    by_kind = {}
    for sig in unknown:
        by_kind.setdefault(sig.split('|')[1] if '|' in sig else '', []).append(sig)
    ordered = []
    while any(by_kind.values()):
        for k in sorted(by_kind):
            if by_kind[k]:
                ordered.append(by_kind[k].pop(0))
    unknown = ordered
    tried = 0
    for sig in unknown:
        if tried >= MAX_CONFIRM and (confirmed_unknown or tried >= 3 * MAX_CONFIRM):
            break
        tried += 1
        size, v = agg.violations[sig]
        os.makedirs(rdir, exist_ok=True)
        path = os.path.join(rdir, sig_file(sig) + '.json')
        with open(path, 'w') as f:
            json.dump({'property': pid, 'sig': sig, 'what': v['what'], 'case': v['case'],
                       'count': agg.vcount[sig]}, f, indent=1, sort_keys=True)
        ok, out = stage2(pid, path)
        if ok:
            confirmed_unknown += 1
            lines.append('VIOLATION property=%s replay=%s' % (pid, path))
            lines.append('  signature: %s  (%d cases)' % (sig, agg.vcount[sig]))
            lines.append('  what: %s' % v['what'][:600])
        else:
            not_repro.append(sig)
            lines.append('HARNESS-ERROR property=%s violation did not reproduce in a fresh interpreter: %s\n%s' % (pid, sig, out[-800:]))
    if len(unknown) > tried:
        lines.append('... %d further unlisted violation signatures not individually confirmed: %s' % (
            len(unknown) - tried, unknown[tried:tried + 20]))
    if confirmed_unknown:
        exit_code = 1
    elif not_repro:
        exit_code = 2

    floor = getattr(mod, 'FLOOR', {}).get(tier, 2)
    if not a.only and agg.nontrivial < floor and exit_code == 0:
        lines.append('MACHINERY-ERROR property=%s vacuity floor: %d non-trivial cases < %d' % (pid, agg.nontrivial, floor))
        exit_code = 2

    wall = time.time() - t0
    cov = {
        'evaluations': agg.evaluations,
        'distinct_nontrivial': agg.nontrivial,
        'rule': mod.RULE,
        'samples': agg.samples[:6],
        'exhaustive': bool(getattr(mod, 'EXHAUSTIVE', True)) and not agg.harness_errors,
        'bounds': mod.bounds(tier) if hasattr(mod, 'bounds') else {},
        'shards': len(shards),
        'distinct_outcomes': len(agg.outcomes),
        'outcomes': dict(agg.outcomes.most_common(40)),
        'violation_signatures': {s: agg.vcount[s] for s in sorted(agg.violations)},
        'known_findings_observed': known_seen,
    }
    for k, v in agg.cov.items():
        cov[k] = v
    for k, v in agg.sets.items():
        cov['distinct_' + k] = len(v)
    if agg.notes:
        cov['notes'] = dict(agg.notes.most_common(60))
    if hasattr(mod, 'finish'):
        cov.update(mod.finish(tier, agg) or {})
    cov['tree'] = tree_identity()
    ev = {
        'property_id': pid, 'tier': tier, 'seed': seed, 'level': mod.LEVEL,
        'coverage': cov, 'assumptions': list(getattr(mod, 'ASSUMPTIONS', [])),
        'wall_s': round(wall, 2), 'violations': confirmed_unknown,
    }
    # evidence/ only ever describes runs against /repo itself: runs against another tree (VERIF_REPO, e.g. a scratch
    # worktree with a seeded change) and filtered debug runs go to scratch/
    other_tree = os.path.realpath(os.environ.get('VERIF_REPO', '/repo')) != os.path.realpath('/repo')
    evdir = os.path.join(VERIF, 'scratch', 'other-tree') if other_tree else os.path.join(VERIF, 'scratch' if a.only else 'evidence')
    os.makedirs(evdir, exist_ok=True)
    with open(os.path.join(evdir, pid + '.json'), 'w') as f:
        json.dump(ev, f, indent=1, sort_keys=True, default=str)
    os.makedirs(os.path.join(VERIF, 'scratch'), exist_ok=True)
    with open(os.path.join(VERIF, 'scratch', pid + '.violations.json'), 'w') as f:
        json.dump({s: {'what': v[1]['what'], 'case': v[1]['case'], 'count': agg.vcount[s]} for s, v in agg.violations.items()},
                  f, indent=1, sort_keys=True, default=str)
    for l in lines:
        print(l)
    print('%s tier=%s seed=%d evaluations=%d nontrivial=%d outcomes=%d signatures=%d (known %d) wall=%.1fs exit=%d' % (
        pid, tier, seed, agg.evaluations, agg.nontrivial, len(agg.outcomes), len(agg.violations),
        len(known_seen), wall, exit_code))
    sys.exit(exit_code)


if __name__ == '__main__':
    main()
