"""Verification framework for arskom/spyne (model-checking family). See /verif/DESIGN.md."""
