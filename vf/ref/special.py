"""Special reference values used to spell *non-conformant* documents (C04/C05/C10):
Raw(text): emit this literal verbatim where a primitive is expected;
Repeat([v..]): emit a single-valued member several times;
Absent: omit the member although it may be mandatory;  Nil: send an explicit nil/null although it may not be nillable."""


class Raw(object):
    def __init__(self, text):
        self.text = text

    def __repr__(self):
        return 'Raw(%r)' % (self.text,)

    def __eq__(self, o):
        return isinstance(o, Raw) and o.text == self.text

    def __hash__(self):
        return hash(self.text)


class Repeat(object):
    def __init__(self, values):
        self.values = list(values)

    def __repr__(self):
        return 'Repeat(%r)' % (self.values,)


class _Marker(object):
    def __init__(self, n):
        self.n = n

    def __repr__(self):
        return self.n


Absent = _Marker('Absent')
Nil = _Marker('Nil')


def enc(v):
    """tagged-JSON extension"""
    if isinstance(v, Raw):
        return {'$raw': v.text}
    if isinstance(v, Repeat):
        return {'$repeat': v.values}
    if v is Absent:
        return {'$absent': 1}
    if v is Nil:
        return {'$nil': 1}
    return None
