"""Reference structural checks on a WSDL 1.1 document (independent of spyne): QName closure and
operation / binding / message cross-references."""
from lxml import etree

WSDL = 'http://schemas.xmlsoap.org/wsdl/'
XS = 'http://www.w3.org/2001/XMLSchema'
SOAP11 = 'http://schemas.xmlsoap.org/wsdl/soap/'
SOAP12 = 'http://schemas.xmlsoap.org/wsdl/soap12/'


def q(ns, n):
    return '{%s}%s' % (ns, n)


class Wsdl(object):
    def __init__(self, data):
        self.root = etree.fromstring(data)
        if self.root.tag != q(WSDL, 'definitions'):
            raise ValueError('root is %s' % self.root.tag)
        self.tns = self.root.get('targetNamespace')
        self.types, self.elements, self.attributes = set(), set(), set()
        for sch in self.root.iter(q(XS, 'schema')):
            ns = sch.get('targetNamespace')
            for ch in sch:
                if not isinstance(ch.tag, str):
                    continue
                if ch.tag in (q(XS, 'complexType'), q(XS, 'simpleType')):
                    self.types.add((ns, ch.get('name')))
                elif ch.tag == q(XS, 'element'):
                    self.elements.add((ns, ch.get('name')))
                elif ch.tag == q(XS, 'attribute'):
                    self.attributes.add((ns, ch.get('name')))
        self.messages = {m.get('name'): m for m in self.root.findall(q(WSDL, 'message'))}
        self.port_types = {p.get('name'): p for p in self.root.findall(q(WSDL, 'portType'))}
        self.bindings = {b.get('name'): b for b in self.root.findall(q(WSDL, 'binding'))}
        self.services = {s.get('name'): s for s in self.root.findall(q(WSDL, 'service'))}

    def duplicate_problems(self):
        """a reference resolves to exactly ONE definition: names are unique per symbol space (WSDL 1.1 sec. 2.1.1 for
        messages, port types, bindings and services of one target namespace; XSD for the top-level components of
        one namespace; parts within a message, ports within a service)"""
        out = []

        def dup(kind, names):
            seen = set()
            for n in names:
                if n in seen:
                    out.append('%s %r is defined more than once' % (kind, n))
                seen.add(n)
        for kind in ('message', 'portType', 'binding', 'service'):
            dup('wsdl:' + kind, [e.get('name') for e in self.root.findall(q(WSDL, kind))])
        for m in self.root.findall(q(WSDL, 'message')):
            dup('part of message %s' % m.get('name'), [e.get('name') for e in m.findall(q(WSDL, 'part'))])
        for sv in self.root.findall(q(WSDL, 'service')):
            dup('port of service %s' % sv.get('name'), [e.get('name') for e in sv.findall(q(WSDL, 'port'))])
        comps = {}
        for sch in self.root.iter(q(XS, 'schema')):
            ns = sch.get('targetNamespace')
            for ch in sch:
                if isinstance(ch.tag, str) and ch.get('name') is not None:
                    kind = 'type' if ch.tag in (q(XS, 'complexType'), q(XS, 'simpleType')) else etree.QName(ch).localname
                    comps.setdefault(kind, []).append((ns, ch.get('name')))
        for kind, names in sorted(comps.items()):
            dup('xs:' + kind, names)
        return out

    def resolve(self, node, text):
        if ':' in text:
            p, l = text.split(':', 1)
            ns = node.nsmap.get(p)
            if ns is None:
                return None, l, 'prefix %r is not bound' % p
        else:
            ns, l = node.nsmap.get(None), text
        return ns, l, None

    def closure_problems(self):
        """every QName-valued attribute resolves to a definition in the document or an XSD built-in"""
        out = []
        for e in self.root.iter():
            if not isinstance(e.tag, str):
                continue
            in_schema = e.tag.startswith('{%s}' % XS)
            if e.tag in (q(XS, 'import'), q(XS, 'include')) and e.get('schemaLocation') is not None:
                # the WSDL is all a client gets: a location of another document cannot be followed from it
                out.append('xs:%s of %r points at schemaLocation=%r, a document outside the WSDL' % (
                    etree.QName(e).localname, e.get('namespace'), e.get('schemaLocation')))
            for attr, kinds in (('type', 'type'), ('base', 'type'), ('itemType', 'type'), ('ref', 'ref'), ('element', 'element'),
                                ('message', 'message'), ('binding', 'binding')):
                v = e.get(attr)
                if v is None:
                    continue
                if attr == 'type' and e.tag == q(WSDL, 'binding'):
                    ns, l, err = self.resolve(e, v)
                    if err or ns != self.tns or l not in self.port_types:
                        out.append('binding %s: portType %s is not defined (%s)' % (e.get('name'), v, err))
                    continue
                if attr == 'type' and not in_schema and e.tag != q(WSDL, 'part'):
                    continue
                ns, l, err = self.resolve(e, v)
                if err:
                    out.append('%s=%r on <%s>: %s' % (attr, v, etree.QName(e).localname, err))
                    continue
                if kinds == 'type':
                    if ns == XS:
                        continue
                    if (ns, l) not in self.types:
                        out.append('%s=%r on <%s name=%s>: type {%s}%s is not defined' % (attr, v, etree.QName(e).localname, e.get('name'), ns, l))
                elif kinds == 'ref':
                    tgt = self.attributes if e.tag == q(XS, 'attribute') else self.elements
                    if ns == 'http://www.w3.org/XML/1998/namespace':
                        continue
                    if (ns, l) not in tgt:
                        out.append('ref=%r: {%s}%s is not defined' % (v, ns, l))
                elif kinds == 'element':
                    if (ns, l) not in self.elements:
                        out.append('part element=%r: {%s}%s is not defined' % (v, ns, l))
                elif kinds == 'message':
                    if ns != self.tns or l not in self.messages:
                        out.append('message=%r is not defined' % v)
                elif kinds == 'binding':
                    if ns != self.tns or l not in self.bindings:
                        out.append('binding=%r is not defined' % v)
        return out

    def operations(self):
        """{operation name: [(portType name, input msg, output msg, [fault names])]}"""
        ops = {}
        for pn, p in self.port_types.items():
            for op in p.findall(q(WSDL, 'operation')):
                i, o = op.find(q(WSDL, 'input')), op.find(q(WSDL, 'output'))
                ops.setdefault(op.get('name'), []).append((pn, None if i is None else i.get('message'), None if o is None else o.get('message'),
                                                           [f.get('name') for f in op.findall(q(WSDL, 'fault'))]))
        return ops

    def binding_operations(self):
        out = {}
        for bn, b in self.bindings.items():
            for op in b.findall(q(WSDL, 'operation')):
                out.setdefault(op.get('name'), []).append((bn, [f.get('name') for f in op.findall(q(WSDL, 'fault'))]))
        return out
