"""Reference predicate: does a native value satisfy the constraints declared on a spec type?
(nullability, occurrence, numeric/date ranges, fixed-width bounds, length, whole-string pattern,
enumeration).  Independent of spyne; works on type references of vf.spec and tagged attribute values."""
import datetime as _dt
import decimal
import re
import uuid

from vf import tagged
from vf.ref.xsdlex import INT_RANGES, XS_OF
from vf.tagged import Obj

D = decimal.Decimal


def attrs_of(t):
    if t[0] in ('xa', 'xd', 'm'):
        a = dict(attrs_of(t[1]))
        if t[0] == 'm':
            a.update(min_occurs=1, nillable=False)
            if t[1][0] == 'p' and t[1][1] in ('Unicode', 'String', 'AnyUri'):
                a.setdefault('min_len', 1)
        if t[0] == 'xa' and len(t) > 2 and t[2]:
            a.update(t[2])
        return a
    return dict(t[2]) if len(t) > 2 and t[2] else {}


def base_of(t):
    while t[0] in ('xa', 'xd', 'm'):
        t = t[1]
    return t


def occurs(t):
    a = attrs_of(t)
    mn = a.get('min_occurs', 0)
    mx = a.get('max_occurs', 1)
    if mx == 'unbounded':
        mx = None
    return mn, mx


def is_multi(t):
    mn, mx = occurs(t)
    return base_of(t)[0] in ('p', 'c', 'e') and (mx is None or mx > 1)


def nillable(t):
    return attrs_of(t).get('nillable', True)


def _num(x):
    return tagged.dec(x)


def scalar_ok(t, v, built=None):
    """v is a single non-None value for the base type of t"""
    bt = base_of(t)
    a = attrs_of(t)
    k = bt[0]
    if k == 'e':
        return isinstance(v, str) and built is not None and v in built.program['enums'][bt[1]]
    if k == 'c':
        if not isinstance(v, Obj):
            return False
        if built is None:
            return True
        if not built.is_subclass(v.cls, bt[1]):
            return False
        for fn, ft in built.flat_fields(v.cls):
            if not conforms(ft, v.f.get(fn), built):
                return False
        return True
    if k == 'a':
        if not isinstance(v, (list, tuple)):
            return False
        mt = bt[1]
        mmn, mmx = occurs(mt)
        if len(v) < mmn:
            return False
        # (an element type with the default max_occurs is made unbounded by Array; an explicit bound is kept)
        if mmx is not None and mmx > 1 and len(v) > mmx:
            return False
        for x in v:
            if x is None:
                if not nillable(mt):
                    return False
            elif not scalar_ok(mt, x, built):
                return False
        return True
    name = bt[1]
    xs = XS_OF.get(name)
    if xs in INT_RANGES or name in ('Decimal', 'Double', 'Float'):
        if isinstance(v, bool) or not isinstance(v, (int, float, D)):
            return False
        if xs in INT_RANGES:
            if not isinstance(v, int):
                return False
            lo, hi = INT_RANGES[xs]
            if (lo is not None and v < lo) or (hi is not None and v > hi):
                return False
        if isinstance(v, float) and v != v:
            return not any(x in a for x in ('ge', 'gt', 'le', 'lt'))
        if 'ge' in a and not v >= _num(a['ge']):
            return False
        if 'gt' in a and not v > _num(a['gt']):
            return False
        if 'le' in a and not v <= _num(a['le']):
            return False
        if 'lt' in a and not v < _num(a['lt']):
            return False
        if name == 'Decimal' and isinstance(v, D) and ('total_digits' in a or 'fraction_digits' in a):
            if not v.is_finite():
                return False
            sign, digits, exp = v.as_tuple()
            fd = max(0, -exp)
            td = max(len(digits) + max(exp, 0), fd)
            if 'fraction_digits' in a and fd > a['fraction_digits']:
                return False
            if 'total_digits' in a and td > a['total_digits']:
                return False
        return True
    if name in ('Unicode', 'String', 'AnyUri'):
        if not isinstance(v, str):
            return False
        if 'min_len' in a and len(v) < a['min_len']:
            return False
        if 'max_len' in a and len(v) > a['max_len']:
            return False
        if 'pattern' in a and a['pattern'] is not None and re.fullmatch(a['pattern'], v) is None:
            return False
        if 'values' in a and a['values'] and v not in a['values']:
            return False
        return True
    if name == 'Boolean':
        return isinstance(v, bool)
    if name == 'Uuid':
        return isinstance(v, uuid.UUID)
    if name == 'DateTime':
        if not isinstance(v, _dt.datetime):
            return False
        return _range_ok(a, v, lambda b: _cmp_dt(v, b))
    if name == 'Date':
        if not isinstance(v, _dt.date) or isinstance(v, _dt.datetime):
            return False
        return _range_ok(a, v, lambda b: (v > b) - (v < b))
    if name == 'Time':
        if not isinstance(v, _dt.time):
            return False
        return _range_ok(a, v, lambda b: (v > b) - (v < b))
    if name == 'Duration':
        return isinstance(v, _dt.timedelta)
    if name == 'ByteArray':
        return isinstance(v, (bytes, bytearray))
    return True


def _cmp_dt(v, b):
    if (v.tzinfo is None) != (b.tzinfo is None):
        v = v.replace(tzinfo=None)
        b = b.replace(tzinfo=None)
    return (v > b) - (v < b)


def _range_ok(a, v, cmp):
    if 'ge' in a and cmp(tagged.dec(a['ge'])) < 0:
        return False
    if 'gt' in a and cmp(tagged.dec(a['gt'])) <= 0:
        return False
    if 'le' in a and cmp(tagged.dec(a['le'])) > 0:
        return False
    if 'lt' in a and cmp(tagged.dec(a['lt'])) >= 0:
        return False
    return True


def conforms(t, v, built=None):
    """value v in the slot declared as t (including occurrence and nullability)"""
    mn, mx = occurs(t)
    if is_multi(t):
        if v is None:
            vs = []
        elif isinstance(v, (list, tuple)):
            vs = list(v)
        else:
            return False
        if len(vs) < mn or (mx is not None and len(vs) > mx):
            return False
        for x in vs:
            if x is None:
                if not nillable(t):
                    return False
            elif not scalar_ok(t, x, built):
                return False
        return True
    if v is None:
        return mn == 0 or nillable(t)
    return scalar_ok(t, v, built)
