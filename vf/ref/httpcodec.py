"""Reference codec for the flattened key/value notation of HttpRpc (DESIGN Appendix C); independent of spyne.
flatten(): (name, type, value) -> ordered list of (key, text) pairs; unflatten(): pairs -> values, with every
array in index order whatever the order of the pairs."""
import re
from urllib.parse import quote

from vf.ref import validity
from vf.ref.xsdcodec import print_prim, parse_prim
from vf.tagged import Obj


class NotDenotable(Exception):
    pass


def _strip(t):
    while t[0] in ('xa', 'xd', 'm'):
        t = t[1]
    return t


def _single(t):
    a = dict(t[2]) if len(t) > 2 and t[2] else {}
    a.pop('max_occurs', None)
    return [t[0], t[1], a]


def text_of(t, v):
    t = _strip(t)
    if t[0] == 'e':
        return v
    if t[1] == 'ByteArray' and not (t[2] or {}).get('encoding'):
        raise NotDenotable('ByteArray without a declared encoding in a query string')
    return print_prim(t, v)


def flatten(built, name, t, v, delim='.', index_of=None, omit_single_index=False, lenient=False):
    """-> list of (key, text).  index_of(path, i, n) -> index spelled for member i of n (default i)"""
    out = []

    def members(t):
        t = _strip(t)
        if t[0] == 'a':
            return _single(t[1]) if t[1][0] in ('p', 'c', 'e') else t[1]
        if validity.is_multi(t):
            return _single(t)
        return None

    def walk(prefix, t, v):
        from vf.ref import special
        if v is None or v is special.Absent:
            return
        if v is special.Nil:
            raise NotDenotable('explicit nil in a query string')
        if isinstance(v, special.Repeat):
            for x in v.values:
                walk(prefix, t, x)
            return
        mt = members(t)
        if mt is not None:
            mb = _strip(mt)
            if mb[0] in ('p', 'e'):
                for x in v:
                    if x is None:
                        raise NotDenotable('None member of a primitive array')
                    out.append((delim.join(prefix), text_of(mb, x)))
                if not v and not lenient:
                    raise NotDenotable('empty primitive array')
                return
            if mb[0] == 'a' or validity.is_multi(mb) and False:
                raise NotDenotable('array of arrays')
            if not v:
                out.append((delim.join(prefix), 'empty'))
                return
            for i, x in enumerate(v):
                if x is None:
                    raise NotDenotable('None member of an object array')
                idx = i if index_of is None else index_of(tuple(prefix), i, len(v))
                if omit_single_index and len(v) == 1:
                    p2 = list(prefix)
                else:
                    p2 = prefix[:-1] + ['%s[%d]' % (prefix[-1], idx)]
                walk_obj(p2, mb, x)
            return
        t = _strip(t)
        if t[0] == 'c':
            walk_obj(prefix, t, v)
            return
        out.append((delim.join(prefix), text_of(t, v)))

    def walk_obj(prefix, t, v):
        n0 = len(out)
        for fn, ft in built.flat_fields(v.cls):
            walk(prefix + [fn], ft, v.f.get(fn))
        if len(out) == n0:
            raise NotDenotable('object with no populated member')

    walk([name], t, v)
    return out


def query_string(pairs, sep='&', plus_for_space=False, encode_all=False):
    def enc(s):
        if encode_all:
            return ''.join('%%%02X' % b for b in s.encode('utf8'))
        q = quote(s, safe='')
        if plus_for_space:
            q = q.replace('%20', '+')
        return q
    return sep.join('%s=%s' % (enc(k), enc(v)) for k, v in pairs)


_IDX = re.compile(r'\[([0-9]+)\]')


def unflatten(built, argspecs, pairs, delim='.', strict_arrays=False):
    """reference reading of flattened pairs -> list of argument values (one per argspec).
    Raises ValueError('sparse') for a non-contiguous spelling under strict_arrays."""
    # group text values by (path without indexes, tuple of indexes)
    by_key = {}
    order = []
    # the paths the signature defines, by their spelling: a member name may contain the delimiter, so a key is looked up
    # whole rather than cut at every delimiter
    known = {}

    def walk_paths(path, t):
        known.setdefault(delim.join(path), path)
        t = _strip(t)
        while t[0] == 'a':
            t = _strip(t[1])
        if t[0] == 'c':
            for fn, ft in built.flat_fields(t[1]):
                walk_paths(path + (fn,), ft)
    for a in argspecs:
        walk_paths((a[0],), a[1])
    for k, v in pairs:
        idx = tuple(int(x) for x in _IDX.findall(k))
        spelled = _IDX.sub('', k)
        path = known.get(spelled) or tuple(spelled.split(delim))
        by_key.setdefault((path, idx), []).append(v)

    def members(t):
        t = _strip(t)
        if t[0] == 'a':
            return _single(t[1]) if t[1][0] in ('p', 'c', 'e') else t[1]
        if validity.is_multi(t):
            return _single(t)
        return None

    def build(path, idxs, t):
        """value for the slot at path given the index prefix idxs (one index per enclosing object array)"""
        mt = members(t)
        if mt is not None:
            mb = _strip(mt)
            if mb[0] in ('p', 'e'):
                vals = by_key.get((path, idxs))
                if vals is None:
                    return None
                return [parse_prim(mb, x) if mb[0] == 'p' else x for x in vals]
            # object members: collect the distinct next indexes in numeric order
            if by_key.get((path, idxs)) == ['empty']:
                return []
            nxt = set()
            for (p, ix) in by_key:
                if p[:len(path)] == path and len(p) > len(path) and ix[:len(idxs)] == idxs:
                    if len(ix) > len(idxs):
                        nxt.add(ix[len(idxs)])
                    else:
                        nxt.add(0)   # index omitted: single member
            if not nxt:
                return None
            ordered = sorted(nxt)
            if strict_arrays and ordered != list(range(len(ordered))):
                raise ValueError('sparse')
            out = []
            for i in ordered:
                has_idx = any(p[:len(path)] == path and len(ix) > len(idxs) and ix[:len(idxs)] == idxs and ix[len(idxs)] == i
                              for (p, ix) in by_key)
                out.append(build_obj(path, idxs + (i,) if has_idx else idxs, mb))
            return out
        t = _strip(t)
        if t[0] == 'c':
            present = any(p[:len(path)] == path and ix[:len(idxs)] == idxs for (p, ix) in by_key)
            if not present:
                return None
            return build_obj(path, idxs, t)
        vals = by_key.get((path, idxs))
        if not vals:
            return None
        return parse_prim(t, vals[0]) if t[0] == 'p' else vals[0]

    def build_obj(path, idxs, t):
        vals = {}
        for fn, ft in built.flat_fields(t[1]):
            vals[fn] = build(path + (fn,), idxs, ft)
        return Obj(t[1], **vals)

    return [build((a[0],), (), a[1]) for a in argspecs]
