"""Reference lexical mappings of the XSD 1.0 built-in types used by Spyne primitives
(XML Schema Part 2).  Independent of spyne: canonical printers, strict parsers and generators of
alternative lexical forms that denote the same value."""
import base64
import datetime as _dt
import decimal
import math
import re
import uuid

from vf.tagged import tz as _tz

D = decimal.Decimal


class LexError(ValueError):
    pass


INT_RANGES = {
    'integer': (None, None), 'long': (-2 ** 63, 2 ** 63 - 1), 'int': (-2 ** 31, 2 ** 31 - 1),
    'short': (-2 ** 15, 2 ** 15 - 1), 'byte': (-128, 127),
    'nonNegativeInteger': (0, None), 'unsignedLong': (0, 2 ** 64 - 1), 'unsignedInt': (0, 2 ** 32 - 1),
    'unsignedShort': (0, 2 ** 16 - 1), 'unsignedByte': (0, 255), 'positiveInteger': (1, None),
}

# Spyne primitive name -> advertised xs: type
XS_OF = {
    'Integer': 'integer', 'Long': 'long', 'Int': 'int', 'Short': 'short', 'Byte': 'byte',
    'Integer64': 'long', 'Integer32': 'int', 'Integer16': 'short', 'Integer8': 'byte',
    'UnsignedInteger': 'nonNegativeInteger', 'NonNegativeInteger': 'nonNegativeInteger',
    'UnsignedLong': 'unsignedLong', 'UnsignedInt': 'unsignedInt', 'UnsignedShort': 'unsignedShort',
    'UnsignedByte': 'unsignedByte',
    'UnsignedInteger64': 'unsignedLong', 'UnsignedInteger32': 'unsignedInt',
    'UnsignedInteger16': 'unsignedShort', 'UnsignedInteger8': 'unsignedByte',
    'Decimal': 'decimal', 'Double': 'double', 'Float': 'float', 'Boolean': 'boolean',
    'Unicode': 'string', 'String': 'string', 'AnyUri': 'anyURI', 'Uuid': 'string',
    'DateTime': 'dateTime', 'Date': 'date', 'Time': 'time', 'Duration': 'duration',
    'ByteArray': 'base64Binary',
}

_int_re = re.compile(r'^[+-]?[0-9]+$')
_dec_re = re.compile(r'^[+-]?([0-9]+(\.[0-9]*)?|\.[0-9]+)$')
_dbl_re = re.compile(r'^([+-]?([0-9]+(\.[0-9]*)?|\.[0-9]+)([eE][+-]?[0-9]+)?|-?INF|NaN)$')
_tzpart = r'(?P<tz>Z|[+-][0-9]{2}:[0-9]{2})?'
_time_core = r'(?P<h>[0-9]{2}):(?P<mi>[0-9]{2}):(?P<s>[0-9]{2})(?P<f>\.[0-9]+)?'
_date_core = r'(?P<y>-?[0-9]{4,})-(?P<mo>[0-9]{2})-(?P<d>[0-9]{2})'
_dt_re = re.compile('^' + _date_core + 'T' + _time_core + _tzpart + '$')
_date_re = re.compile('^' + _date_core + _tzpart + '$')
_time_re = re.compile('^' + _time_core + _tzpart + '$')
_dur_re = re.compile(r'^(?P<sign>-)?P(?:(?P<Y>[0-9]+)Y)?(?:(?P<Mo>[0-9]+)M)?(?:(?P<D>[0-9]+)D)?'
                     r'(?P<T>T(?:(?P<H>[0-9]+)H)?(?:(?P<Mi>[0-9]+)M)?(?:(?P<S>[0-9]+(\.[0-9]+)?)S)?)?$')
WS = ' \t\n\r'


def collapse(s):
    return ' '.join(s.replace('\t', ' ').replace('\n', ' ').replace('\r', ' ').split())


# ---------------------------------------------------------------- parsers

def parse_integer(s, xs='integer'):
    s = collapse(s)
    if not _int_re.match(s):
        raise LexError(s)
    v = int(s)
    lo, hi = INT_RANGES[xs]
    if (lo is not None and v < lo) or (hi is not None and v > hi):
        raise LexError('out of range %s' % s)
    return v


def parse_decimal(s):
    s = collapse(s)
    if not _dec_re.match(s):
        raise LexError(s)
    return D(s)


def parse_double(s):
    s = collapse(s)
    if not _dbl_re.match(s):
        raise LexError(s)
    if s == 'INF':
        return float('inf')
    if s == '-INF':
        return float('-inf')
    if s == 'NaN':
        return float('nan')
    return float(s)


def parse_boolean(s):
    s = collapse(s)
    if s in ('true', '1'):
        return True
    if s in ('false', '0'):
        return False
    raise LexError(s)


def _tzof(t):
    if t is None:
        return None
    if t == 'Z':
        return _tz(0)
    h, m = int(t[1:3]), int(t[4:6])
    if h > 14 or m > 59 or (h == 14 and m != 0):
        raise LexError('tz ' + t)
    mins = h * 60 + m
    return _tz(-mins if t[0] == '-' else mins)


def _frac(f):
    """fraction text -> microseconds; raises if it is not representable in microseconds"""
    if f is None:
        return 0
    digits = f[1:]
    if len(digits) > 6 and digits[6:].strip('0'):
        raise LexError('sub-microsecond')
    return int((digits + '000000')[:6])


def parse_datetime(s):
    m = _dt_re.match(collapse(s))
    if not m:
        raise LexError(s)
    y, mo, d = int(m.group('y')), int(m.group('mo')), int(m.group('d'))
    h, mi, sec = int(m.group('h')), int(m.group('mi')), int(m.group('s'))
    us = _frac(m.group('f'))
    tzi = _tzof(m.group('tz'))
    try:
        if h == 24:
            if mi or sec or us:
                raise LexError(s)
            return _dt.datetime(y, mo, d, 0, 0, 0, 0, tzi) + _dt.timedelta(days=1)
        return _dt.datetime(y, mo, d, h, mi, sec, us, tzi)
    except (ValueError, OverflowError) as e:
        raise LexError(str(e))


def parse_date(s):
    m = _date_re.match(collapse(s))
    if not m:
        raise LexError(s)
    _tzof(m.group('tz'))
    try:
        return _dt.date(int(m.group('y')), int(m.group('mo')), int(m.group('d')))
    except ValueError as e:
        raise LexError(str(e))


def parse_time(s):
    m = _time_re.match(collapse(s))
    if not m:
        raise LexError(s)
    h, mi, sec = int(m.group('h')), int(m.group('mi')), int(m.group('s'))
    us = _frac(m.group('f'))
    _tzof(m.group('tz'))
    try:
        if h == 24:
            if mi or sec or us:
                raise LexError(s)
            return _dt.time(0, 0, 0)
        return _dt.time(h, mi, sec, us)
    except ValueError as e:
        raise LexError(str(e))


def parse_duration(s):
    s = collapse(s)
    m = _dur_re.match(s)
    if not m or s in ('P', '-P') or s.endswith('T'):
        raise LexError(s)
    if int(m.group('Y') or 0) or int(m.group('Mo') or 0):
        raise LexError('year/month durations are not representable as timedelta')
    sec = D(m.group('S') or '0')
    us = sec * 1000000
    if us != us.to_integral_value():
        raise LexError('sub-microsecond')
    td = _dt.timedelta(days=int(m.group('D') or 0), hours=int(m.group('H') or 0),
                       minutes=int(m.group('Mi') or 0), microseconds=int(us))
    return -td if m.group('sign') else td


def parse_base64(s):
    t = ''.join(s.split())
    if not re.match(r'^[A-Za-z0-9+/]*={0,2}$', t) or len(t) % 4:
        raise LexError('base64')
    try:
        return base64.b64decode(t, validate=True)
    except Exception as e:
        raise LexError(str(e))


def parse_hex(s):
    t = collapse(s)
    if len(t) % 2 or not re.match(r'^[0-9a-fA-F]*$', t):
        raise LexError('hexBinary')
    return bytes.fromhex(t)


# ---------------------------------------------------------------- canonical printers

def print_integer(v):
    return str(int(v))


def print_decimal(v):
    v = D(v)
    if not v.is_finite():
        raise LexError('non-finite decimal')
    s = format(v, 'f')
    return s


def print_double(v):
    if math.isnan(v):
        return 'NaN'
    if math.isinf(v):
        return 'INF' if v > 0 else '-INF'
    return repr(float(v))


def print_tz(off):
    if off is None:
        return ''
    mins = int(off.total_seconds() // 60)
    if mins == 0:
        return 'Z'
    sign = '-' if mins < 0 else '+'
    mins = abs(mins)
    return '%s%02d:%02d' % (sign, mins // 60, mins % 60)


def _fracs(us):
    return ('.%06d' % us).rstrip('0') if us else ''


def print_datetime(v):
    return '%04d-%02d-%02dT%02d:%02d:%02d%s%s' % (v.year, v.month, v.day, v.hour, v.minute, v.second,
                                                   _fracs(v.microsecond), print_tz(v.utcoffset()))


def print_date(v):
    return '%04d-%02d-%02d' % (v.year, v.month, v.day)


def print_time(v):
    return '%02d:%02d:%02d%s' % (v.hour, v.minute, v.second, _fracs(v.microsecond))


def print_duration(v):
    neg = v < _dt.timedelta(0)
    if neg:
        v = -v
    out = '-P' if neg else 'P'
    if v.days:
        out += '%dD' % v.days
    h, rem = divmod(v.seconds, 3600)
    mi, sec = divmod(rem, 60)
    t = ''
    if h:
        t += '%dH' % h
    if mi:
        t += '%dM' % mi
    if sec or v.microseconds:
        t += '%d%sS' % (sec, _fracs(v.microseconds))
    if t:
        out += 'T' + t
    if out in ('P', '-P'):
        out = 'PT0S'
    return out


def print_boolean(v):
    return 'true' if v else 'false'


# ---------------------------------------------------------------- alternative lexical forms
# each generator yields (form label, literal) pairs denoting exactly value v

def alt_integer(v, xs='integer'):
    s = str(v)
    if v >= 0:
        yield 'plus-sign', '+' + s
        yield 'leading-zeros', '000' + s
    else:
        yield 'leading-zeros', '-000' + s[1:]
    if v == 0:
        yield 'negative-zero', '-0'


def alt_decimal(v):
    s = print_decimal(v)
    neg = s.startswith('-')
    body = s[1:] if neg else s
    sg = '-' if neg else ''
    if '.' in body:
        yield 'trailing-zeros', sg + body + '000'
        if body.startswith('0.'):
            yield 'no-integer-part', sg + body[1:]
    else:
        yield 'trailing-point-zero', sg + body + '.0'
        yield 'trailing-point', sg + body + '.'
    yield 'leading-zeros', sg + '00' + body
    if not neg:
        yield 'plus-sign', '+' + body


def alt_double(v):
    if math.isnan(v) or math.isinf(v):
        return
    r = repr(float(v))
    yield 'exponent-E', ('%.17E' % v)
    yield 'exponent-e', ('%.17e' % v)
    if v >= 0 and not r.startswith('-'):
        yield 'plus-sign', '+' + r
    if float(v) == int(v) and abs(v) < 1e15:
        yield 'integer-form', str(int(v)) if not (v == 0 and math.copysign(1, v) < 0) else '-0'


def alt_boolean(v):
    yield 'numeric', '1' if v else '0'


def _frac_forms(us):
    if us == 0:
        yield 'frac-.0', '.0'
        yield 'frac-.000000', '.000000'
    else:
        six = '%06d' % us
        yield 'frac-6-digits', '.' + six
        yield 'frac-9-digits', '.' + six + '000'
        short = six.rstrip('0')
        if short != six:
            yield 'frac-shortest', '.' + short


def alt_datetime(v):
    base = '%04d-%02d-%02dT%02d:%02d:%02d' % (v.year, v.month, v.day, v.hour, v.minute, v.second)
    tzs = print_tz(v.utcoffset())
    for lab, f in _frac_forms(v.microsecond):
        yield lab, base + f + tzs
    if tzs == 'Z':
        yield 'tz-+00:00', base + _fracs(v.microsecond) + '+00:00'
        yield 'tz--00:00', base + _fracs(v.microsecond) + '-00:00'
    if v.hour == 0 and v.minute == 0 and v.second == 0 and v.microsecond == 0 and v.year > 1:
        p = v - _dt.timedelta(days=1)
        yield 'hour-24', '%04d-%02d-%02dT24:00:00%s' % (p.year, p.month, p.day, tzs)


def alt_time(v):
    base = '%02d:%02d:%02d' % (v.hour, v.minute, v.second)
    for lab, f in _frac_forms(v.microsecond):
        yield lab, base + f
    if v == _dt.time(0, 0, 0):
        yield 'hour-24', '24:00:00'
    # xs:time may carry a zone designator (read as the wall-clock time, like xs:date)
    full = base + _fracs(v.microsecond)
    yield 'tz-Z', full + 'Z'
    yield 'tz-offset', full + '+05:30'
    yield 'tz-negative-offset', full + '-11:00'


def alt_date(v):
    s = print_date(v)
    yield 'tz-Z', s + 'Z'
    yield 'tz-offset', s + '+05:30'
    yield 'tz-negative-offset', s + '-11:00'


def alt_duration(v):
    neg = v < _dt.timedelta(0)
    a = -v if neg else v
    sg = '-' if neg else ''
    tot_us = (a.days * 86400 + a.seconds) * 1000000 + a.microseconds
    secs, us = divmod(tot_us, 1000000)
    fr = _fracs(us)
    yield 'seconds-only', '%sPT%d%sS' % (sg, secs, fr)
    if us:
        yield 'frac-6-digits', '%sPT%d.%06dS' % (sg, secs, us)
    mins, s2 = divmod(secs, 60)
    yield 'minutes-seconds', '%sPT%dM%d%sS' % (sg, mins, s2, fr)
    hrs, m2 = divmod(mins, 60)
    yield 'hours-minutes-seconds', '%sPT%dH%dM%d%sS' % (sg, hrs, m2, s2, fr)
    days, h2 = divmod(hrs, 24)
    yield 'all-fields', '%sP%dDT%dH%dM%d%sS' % (sg, days, h2, m2, s2, fr)
    yield 'zero-year-month', '%sP0Y0M%dDT%dH%dM%d%sS' % (sg, days, h2, m2, s2, fr)
    if us == 0 and s2 == 0 and m2 == 0 and h2 == 0:
        yield 'days-only', '%sP%dD' % (sg, days)
        yield 'hours-only', '%sPT%dH' % (sg, hrs)


def alt_base64(v):
    s = base64.b64encode(v).decode('ascii')
    if len(s) > 4:
        yield 'space-separated', ' '.join(s[i:i + 4] for i in range(0, len(s), 4))


def alt_hex(v):
    s = v.hex()
    if s.upper() != s:
        yield 'uppercase', s.upper()
    if s.lower() != s.upper():
        yield 'lowercase', s.lower()


def alt_uuid(v):
    s = str(v)
    if s.upper() != s:
        yield 'uppercase', s.upper()
