"""Schema-driven reference codec for the XML family (a miniature WSDL/XSD client, independent of spyne).

It reads the XML Schema documents *as published* (bytes), and encodes request documents / decodes response
documents for values described by a program spec.  Names, namespaces, order, occurrence and nillability come
from the schema; the Python shape of a value (object, list, scalar) comes from the spec type; literal text comes
from vf.ref.xsdlex."""
import base64
import datetime as _dt
import decimal
import uuid

from lxml import etree

from vf.ref import xsdlex
from vf.tagged import Obj

XS = 'http://www.w3.org/2001/XMLSchema'
XSI = 'http://www.w3.org/2001/XMLSchema-instance'
SOAP11 = 'http://schemas.xmlsoap.org/soap/envelope/'
SOAP12 = 'http://www.w3.org/2003/05/soap-envelope'


class SchemaError(Exception):
    """the published schema cannot express what the spec asks for (or is malformed)"""


class NotDenotable(Exception):
    """the value has no denotation under the published schema (e.g. None for a mandatory non-nillable element)"""


class DecodeError(Exception):
    pass


def q(ns, name):
    return '{%s}%s' % (ns, name) if ns else name


class Decl(object):
    __slots__ = ('name', 'ns', 'type', 'min', 'max', 'nillable', 'inline', 'default')

    def __init__(self, name, ns, type_, min_, max_, nillable, inline=None, default=None):
        self.name, self.ns, self.type, self.min, self.max, self.nillable = name, ns, type_, min_, max_, nillable
        self.inline = inline
        self.default = default

    @property
    def tag(self):
        return q(self.ns, self.name)


class CT(object):
    """complex type: ordered element particles, attributes, optional simple content, base"""
    __slots__ = ('qname', 'base', 'particles', 'attrs', 'simple_base', 'choice')

    def __init__(self, qname):
        self.qname = qname
        self.base = None
        self.particles = []
        self.attrs = []
        self.simple_base = None
        self.choice = False


class Schema(object):
    def __init__(self, docs):
        self.elements = {}
        self.types = {}       # (ns, name) -> etree node
        self.form = {}
        for d in docs:
            root = etree.fromstring(d) if isinstance(d, (bytes, str)) else d
            if root.tag != q(XS, 'schema'):
                raise SchemaError('not a schema document: %s' % root.tag)
            tns = root.get('targetNamespace')
            qualified = root.get('elementFormDefault') == 'qualified'
            for ch in root:
                if not isinstance(ch.tag, str):
                    continue
                if ch.tag == q(XS, 'element'):
                    self.elements[(tns, ch.get('name'))] = (ch, tns, qualified)
                elif ch.tag in (q(XS, 'complexType'), q(XS, 'simpleType')):
                    self.types[(tns, ch.get('name'))] = (ch, tns, qualified)
        self._ct = {}

    @staticmethod
    def _qn(node, text):
        if text is None:
            return None
        if ':' in text:
            p, l = text.split(':', 1)
            ns = node.nsmap.get(p)
            if ns is None:
                raise SchemaError('unbound prefix in QName %r' % text)
            return (ns, l)
        return (node.nsmap.get(None), text)

    def global_element(self, ns, name):
        e = self.elements.get((ns, name))
        if e is None:
            raise SchemaError('no global element {%s}%s in the published schema' % (ns, name))
        node, tns, qual = e
        return self._decl(node, tns, True)

    def _decl(self, node, tns, qualified):
        ref = node.get('ref')
        if ref is not None:
            rns, rname = self._qn(node, ref)
            d = self.global_element(rns, rname)
            d = Decl(d.name, d.ns, d.type, d.min, d.max, d.nillable, d.inline)
        else:
            form = node.get('form')
            is_q = qualified if form is None else form == 'qualified'
            inline = None
            for ch in node:
                if isinstance(ch.tag, str) and ch.tag in (q(XS, 'complexType'), q(XS, 'simpleType')):
                    inline = (ch, tns, qualified)
            d = Decl(node.get('name'), tns if is_q else None, self._qn(node, node.get('type')), 1, 1,
                     node.get('nillable') in ('true', '1'), inline, node.get('default'))
        mn, mx = node.get('minOccurs'), node.get('maxOccurs')
        d.min = 1 if mn is None else int(mn)
        d.max = 1 if mx is None else (None if mx == 'unbounded' else int(mx))
        return d

    def is_simple(self, decl):
        if decl.inline is not None:
            return decl.inline[0].tag == q(XS, 'simpleType')
        if decl.type is None:
            return True    # anyType; treated as text
        if decl.type[0] == XS:
            return True
        t = self.types.get(decl.type)
        if t is None:
            raise SchemaError('type {%s}%s of element %s is not defined in the published schema' % (
                decl.type[0], decl.type[1], decl.name))
        return t[0].tag == q(XS, 'simpleType')

    def builtin_of(self, tq, seen=()):
        """the xs: built-in a simple type restricts"""
        if tq is None:
            return 'anyType'
        if tq[0] == XS:
            return tq[1]
        t = self.types.get(tq)
        if t is None:
            raise SchemaError('undefined type {%s}%s' % tq)
        node = t[0]
        r = node.find(q(XS, 'restriction'))
        if r is not None:
            return self.builtin_of(self._qn(r, r.get('base')))
        l = node.find(q(XS, 'list'))
        if l is not None:
            return 'list:' + self.builtin_of(self._qn(l, l.get('itemType')))
        raise SchemaError('unsupported simpleType {%s}%s' % tq)

    def complex(self, decl_or_q):
        if isinstance(decl_or_q, Decl):
            if decl_or_q.inline is not None:
                return self._build_ct(decl_or_q.inline, ('inline', decl_or_q.name))
            tq = decl_or_q.type
        else:
            tq = decl_or_q
        ct = self._ct.get(tq)
        if ct is None:
            t = self.types.get(tq)
            if t is None:
                raise SchemaError('undefined complex type {%s}%s' % tq)
            if t[0].tag != q(XS, 'complexType'):
                raise SchemaError('{%s}%s is not a complex type' % tq)
            ct = self._ct[tq] = self._build_ct(t, tq)
        return ct

    def _build_ct(self, t, tq):
        node, tns, qualified = t
        ct = CT(tq)
        body = node
        cc = node.find(q(XS, 'complexContent'))
        sc = node.find(q(XS, 'simpleContent'))
        if cc is not None:
            ext = cc.find(q(XS, 'extension'))
            if ext is None:
                ext = cc.find(q(XS, 'restriction'))
            if ext is None:
                raise SchemaError('complexContent without extension in %r' % (tq,))
            ct.base = self._qn(ext, ext.get('base'))
            body = ext
        elif sc is not None:
            ext = sc.find(q(XS, 'extension'))
            if ext is None:
                raise SchemaError('simpleContent without extension in %r' % (tq,))
            ct.simple_base = self._qn(ext, ext.get('base'))
            body = ext
        for ch in body:
            if not isinstance(ch.tag, str):
                continue
            if ch.tag in (q(XS, 'sequence'), q(XS, 'all'), q(XS, 'choice')):
                self._particles(ch, tns, qualified, ct, ch.tag == q(XS, 'choice'))
            elif ch.tag == q(XS, 'attribute'):
                aref = ch.get('ref')
                if aref is not None:
                    ct.attrs.append((self._qn(ch, aref)[1], self._qn(ch, aref)[0], None, ch.get('use')))
                else:
                    ct.attrs.append((ch.get('name'), None, self._qn(ch, ch.get('type')), ch.get('use')))
        return ct

    def _particles(self, seq, tns, qualified, ct, in_choice):
        for ch in seq:
            if not isinstance(ch.tag, str):
                continue
            if ch.tag == q(XS, 'element'):
                d = self._decl(ch, tns, qualified)
                if in_choice:
                    d.min = 0
                ct.particles.append(d)
            elif ch.tag in (q(XS, 'sequence'), q(XS, 'choice')):
                self._particles(ch, tns, qualified, ct, in_choice or ch.tag == q(XS, 'choice'))

    def all_particles(self, ct):
        """base-first list of element particles and attributes"""
        ps, at = [], []
        if ct.base is not None and ct.base[0] != XS:
            bp, ba = self.all_particles(self.complex(ct.base))
            ps.extend(bp)
            at.extend(ba)
        ps.extend(ct.particles)
        at.extend(ct.attrs)
        return ps, at

    def derives(self, tq, base):
        seen = 0
        while tq is not None and seen < 50:
            if tq == base:
                return True
            t = self.types.get(tq)
            if t is None or t[0].tag != q(XS, 'complexType'):
                return False
            tq = self.complex(tq).base
            seen += 1
        return False


# ------------------------------------------------------------------ literal printing / parsing by spec primitive

def print_prim(t, v):
    """t = ['p', name, attrs]"""
    from vf.ref.special import Raw
    if isinstance(v, Raw):
        return v.text
    if t[0] == 'e':
        return v
    name = t[1]
    attrs = t[2] if len(t) > 2 and t[2] else {}
    if name in xsdlex.XS_OF and xsdlex.XS_OF[name] in xsdlex.INT_RANGES:
        return xsdlex.print_integer(v)
    if name == 'Decimal':
        return xsdlex.print_decimal(v)
    if name in ('Double', 'Float'):
        return xsdlex.print_double(v)
    if name == 'Boolean':
        return xsdlex.print_boolean(v)
    if name in ('Unicode', 'String', 'AnyUri'):
        return v
    if name == 'Uuid':
        return str(v)
    if name == 'DateTime':
        return xsdlex.print_datetime(v)
    if name == 'Date':
        return xsdlex.print_date(v)
    if name == 'Time':
        return xsdlex.print_time(v)
    if name == 'Duration':
        return xsdlex.print_duration(v)
    if name == 'ByteArray':
        enc = attrs.get('encoding')
        if enc == 'hex':
            return v.hex()
        if enc == 'urlsafe_base64':
            return base64.urlsafe_b64encode(v).decode('ascii')
        return base64.b64encode(v).decode('ascii')
    raise SchemaError('no printer for %s' % name)


def parse_prim(t, s):
    if t[0] == 'e':
        return s
    name = t[1]
    attrs = t[2] if len(t) > 2 and t[2] else {}
    if s is None:
        s = ''
    if name in xsdlex.XS_OF and xsdlex.XS_OF[name] in xsdlex.INT_RANGES:
        return xsdlex.parse_integer(s, 'integer')
    if name == 'Decimal':
        try:
            return xsdlex.parse_decimal(s)
        except xsdlex.LexError:
            # decoder deviation rule (DESIGN 1.3.5): Spyne prints decimals with exponents (known finding of C08)
            try:
                return decimal.Decimal(s)
            except decimal.InvalidOperation:
                raise xsdlex.LexError(s)
    if name in ('Double', 'Float'):
        return xsdlex.parse_double(s)
    if name == 'Boolean':
        return xsdlex.parse_boolean(s)
    if name in ('Unicode', 'String', 'AnyUri'):
        return s
    if name == 'Uuid':
        try:
            return uuid.UUID(s)
        except ValueError:
            raise xsdlex.LexError(s)
    if name == 'DateTime':
        return xsdlex.parse_datetime(s)
    if name == 'Date':
        return xsdlex.parse_date(s)
    if name == 'Time':
        return xsdlex.parse_time(s)
    if name == 'Duration':
        return xsdlex.parse_duration(s)
    if name == 'ByteArray':
        enc = attrs.get('encoding')
        if enc == 'hex':
            return xsdlex.parse_hex(s)
        if enc == 'urlsafe_base64':
            try:
                return base64.urlsafe_b64decode(s.encode('ascii'))
            except Exception:
                raise xsdlex.LexError(s)
        return xsdlex.parse_base64(s)
    raise SchemaError('no parser for %s' % name)


def _strip(t):
    """unwrap xa / xd / m modifiers"""
    while t[0] in ('xa', 'xd', 'm'):
        t = t[1]
    return t


def _multi(t):
    a = t[2] if len(t) > 2 and t[2] else {}
    mo = a.get('max_occurs', 1)
    return mo == 'unbounded' or (isinstance(mo, int) and mo > 1)


def _single(t):
    a = dict(t[2]) if len(t) > 2 and t[2] else {}
    a.pop('max_occurs', None)
    return [t[0], t[1], a]


class Codec(object):
    """Encoder/decoder for one built program: needs the parsed published schema and the spec (vf.spec.Built
    is only used for its *spec-side* tables: cdefs, flat_fields, tns)."""

    def __init__(self, schema, built):
        self.s = schema
        self.b = built
        self.lenient = False    # True: spell documents that violate occurrence constraints (C05)

    def class_q(self, cname):
        c = self.b.cdefs[cname]
        ns = c.get('ns')
        if ns is None:
            ns = self.class_q(c['base'])[0] if c.get('base') else self.b.tns
        return (ns, cname)

    # ---------------------------------------------------------------- encode
    def emit(self, parent, decl, t, v):
        """append the denotation of v (spec type t) for particle decl to parent"""
        if t[0] in ('p', 'c', 'e') and _multi(t):
            from vf.ref import special
            if v is None or v is special.Absent:
                vs = []
            else:
                vs = list(v)
            if decl.max is not None and decl.max <= 1 and len(vs) > 1:
                raise SchemaError('element %s is not repeatable in the schema but the declared type has max_occurs>1' % decl.name)
            if len(vs) < decl.min and not self.lenient:
                raise NotDenotable('%d occurrences of %s, schema minOccurs=%d' % (len(vs), decl.name, decl.min))
            for x in vs:
                self._emit_one(parent, decl, _single(t), x)
            return
        self._emit_one(parent, decl, t, v)

    def _emit_one(self, parent, decl, t, v):
        from vf.ref import special
        t = _strip(t)
        if v is special.Absent:
            return
        if v is special.Nil:
            etree.SubElement(parent, decl.tag).set(q(XSI, 'nil'), 'true')
            return
        if isinstance(v, special.Repeat):
            for x in v.values:
                self._emit_one(parent, decl, t, x)
            return
        if v is None:
            if decl.min == 0:
                return
            if decl.nillable:
                e = etree.SubElement(parent, decl.tag)
                e.set(q(XSI, 'nil'), 'true')
                return
            raise NotDenotable('None for mandatory non-nillable element %s' % decl.name)
        e = etree.SubElement(parent, decl.tag)
        self.fill(e, decl, t, v)

    def fill(self, e, decl, t, v):
        t = _strip(t)
        k = t[0]
        if k in ('p', 'e'):
            if not self.s.is_simple(decl):
                raise SchemaError('element %s has a complex type in the schema but a primitive in the signature' % decl.name)
            e.text = v if k == 'e' else print_prim(t, v)
            return
        if k == 'a':
            ct = self.s.complex(decl)
            ps, _ = self.s.all_particles(ct)
            if len(ps) != 1:
                raise SchemaError('array type of %s has %d particles' % (decl.name, len(ps)))
            m = ps[0]
            if m.max is not None and m.max < len(v) and not self.lenient:
                raise SchemaError('array member of %s has maxOccurs=%s' % (decl.name, m.max))
            for x in v:
                mt = t[1]
                if x is None:
                    if m.nillable:
                        etree.SubElement(e, m.tag).set(q(XSI, 'nil'), 'true')
                        continue
                    raise NotDenotable('None array member, not nillable')
                self.fill(etree.SubElement(e, m.tag), m, _single(mt) if mt[0] in ('p', 'c', 'e') else mt, x)
            return
        if k == 'c':
            assert isinstance(v, Obj), (t, v)
            declared_q = decl.type if decl.inline is None else None
            runtime_q = self.class_q(v.cls)
            if v.cls != t[1]:
                if not self.s.derives(runtime_q, self.class_q(t[1])):
                    raise SchemaError('schema type of %s does not derive from %s' % (v.cls, t[1]))
                pref = self._prefix(e, runtime_q[0])
                e.set(q(XSI, 'type'), '%s:%s' % (pref, runtime_q[1]))
                ct = self.s.complex(runtime_q)
            else:
                ct = self.s.complex(decl)
                if ALWAYS_TYPE[0] and declared_q is not None:
                    # (legal and redundant: the element names its own declared type)
                    try:
                        e.set(q(XSI, 'type'), '%s:%s' % (self._prefix(e, runtime_q[0]), runtime_q[1]))
                    except SchemaError:
                        pass
            ps, ats = self.s.all_particles(ct)
            fields = dict(self.b.flat_fields(v.cls))
            used = set()
            for p in ps:
                if p.name not in fields:
                    if p.min > 0 and not p.nillable:
                        raise SchemaError('schema requires element %s which the class %s does not declare' % (p.name, v.cls))
                    if p.min > 0:
                        etree.SubElement(e, p.tag).set(q(XSI, 'nil'), 'true')
                    continue
                ft = fields[p.name]
                if ft[0] in ('xa', 'xd'):
                    raise SchemaError('field %s is an attribute/data in the signature but an element in the schema' % p.name)
                used.add(p.name)
                self.emit(e, p, ft, v.f.get(p.name))
            for an, ans, atq, use in ats:
                if an not in fields:
                    if use == 'required':
                        raise SchemaError('required attribute %s not declared by class' % an)
                    continue
                used.add(an)
                fv = v.f.get(an)
                from vf.ref import special
                if fv is special.Absent or fv is special.Nil:
                    continue
                if fv is None:
                    if use == 'required':
                        raise NotDenotable('None for required attribute %s' % an)
                    continue
                e.set(q(ans, an), print_prim(_strip(fields[an]), fv))
            for fn, ft in fields.items():
                if ft[0] == 'xd':
                    if ct.simple_base is None:
                        raise SchemaError('XmlData field %s but the schema type has no simple content' % fn)
                    used.add(fn)
                    if v.f.get(fn) is not None:
                        e.text = print_prim(_strip(ft), v.f[fn])
                    elif not (_strip(ft)[0] == 'p' and _strip(ft)[1] in ('Unicode', 'String', 'AnyUri', 'ByteArray')):
                        raise NotDenotable('None as character data of a non-string simple content')
            for fn in fields:
                if fn not in used and v.f.get(fn) is not None:
                    raise SchemaError('field %s of class %s has no particle in the published schema type' % (fn, v.cls))
            return
        raise SchemaError('unsupported spec type %r' % (t,))

    @staticmethod
    def _prefix(e, ns):
        for p, u in e.nsmap.items():
            if u == ns and p:
                return p
        # declare on the element itself through a child-less trick: lxml needs nsmap at creation, so
        # we re-create via a temporary attribute in that namespace
        root = e.getroottree().getroot()
        i = 0
        while 'q%d' % i in e.nsmap:
            i += 1
        # lxml cannot add nsmap entries after creation; caller must pre-declare. raise for visibility
        raise SchemaError('namespace %s not pre-declared on the document root' % ns)

    # ---------------------------------------------------------------- decode
    def take(self, children, pos, decl, t):
        """consume the occurrences of particle decl starting at children[pos]; return (value, new pos)"""
        els = []
        while pos < len(children) and children[pos].tag == decl.tag:
            els.append(children[pos])
            pos += 1
            if not (t[0] in ('p', 'c', 'e') and _multi(t)) and (decl.max == 1):
                break
        if t[0] in ('p', 'c', 'e') and _multi(t):
            if decl.max is not None and len(els) > decl.max:
                raise DecodeError('%d occurrences of %s, maxOccurs=%s' % (len(els), decl.name, decl.max))
            if len(els) < decl.min:
                raise DecodeError('%d occurrences of %s, minOccurs=%s' % (len(els), decl.name, decl.min))
            return [self.read(e, decl, _single(t)) for e in els], pos
        if not els:
            if decl.min > 0:
                raise DecodeError('mandatory element %s missing' % decl.name)
            return None, pos
        return self.read(els[0], decl, t), pos

    def read(self, e, decl, t):
        t = _strip(t)
        nil = e.get(q(XSI, 'nil'))
        if nil in ('true', '1'):
            if not decl.nillable:
                raise DecodeError('xsi:nil on non-nillable element %s' % decl.name)
            return None
        k = t[0]
        if k in ('p', 'e'):
            if len(e):
                raise DecodeError('child elements inside simple element %s' % decl.name)
            if k == 'e':
                return e.text
            try:
                return parse_prim(t, e.text)
            except xsdlex.LexError as x:
                raise DecodeError('element %s: %r is not a literal of %s (%s)' % (decl.name, e.text, t[1], x))
        if k == 'a':
            ct = self.s.complex(decl)
            ps, _ = self.s.all_particles(ct)
            if len(ps) != 1:
                raise SchemaError('array type of %s has %d particles' % (decl.name, len(ps)))
            m = ps[0]
            out = []
            for ch in e:
                if not isinstance(ch.tag, str):
                    continue
                if ch.tag != m.tag:
                    raise DecodeError('unexpected element %s inside array %s (expected %s)' % (ch.tag, decl.name, m.tag))
                mt = t[1]
                out.append(self.read(ch, m, _single(mt) if mt[0] in ('p', 'c', 'e') else mt))
            return out
        if k == 'c':
            cname = t[1]
            xt = e.get(q(XSI, 'type'))
            ct = None
            if xt is not None:
                if ':' in xt:
                    p, l = xt.split(':', 1)
                    ns = e.nsmap.get(p)
                    if ns is None:
                        raise DecodeError('xsi:type %r uses a prefix that is not bound in the document' % xt)
                else:
                    ns, l = e.nsmap.get(None), xt
                found = [n for n in self.b.cdefs if self.class_q(n) == (ns, l)]
                if not found:
                    raise DecodeError('xsi:type {%s}%s names no class of the program' % (ns, l))
                if not self.b.is_subclass(found[0], cname):
                    raise DecodeError('xsi:type %s is not a subclass of the declared %s' % (found[0], cname))
                cname = found[0]
                ct = self.s.complex((ns, l))
            else:
                ct = self.s.complex(decl)
            ps, ats = self.s.all_particles(ct)
            fields = dict(self.b.flat_fields(cname))
            vals = {}
            children = [c for c in e if isinstance(c.tag, str)]
            pos = 0
            for p in ps:
                if p.name in fields:
                    vals[p.name], pos = self.take(children, pos, p, fields[p.name])
                else:
                    while pos < len(children) and children[pos].tag == p.tag:
                        pos += 1
            if pos != len(children):
                raise DecodeError('unexpected or out-of-order element %s in %s (class %s)' % (children[pos].tag, decl.name, cname))
            for an, ans, atq, use in ats:
                if an in fields:
                    raw = e.get(q(ans, an))
                    if raw is None:
                        if use == 'required':
                            raise DecodeError('required attribute %s missing' % an)
                        vals[an] = None
                    else:
                        try:
                            vals[an] = parse_prim(_strip(fields[an]), raw)
                        except xsdlex.LexError as x:
                            raise DecodeError('attribute %s: %r (%s)' % (an, raw, x))
            for fn, ft in fields.items():
                if ft[0] == 'xd':
                    txt = e.text
                    try:
                        vals[fn] = None if txt is None else parse_prim(_strip(ft), txt)
                    except xsdlex.LexError as x:
                        raise DecodeError('character data of %s: %r (%s)' % (decl.name, txt, x))
            for fn in fields:
                vals.setdefault(fn, None)
            return Obj(cname, **vals)
        raise SchemaError('unsupported spec type %r' % (t,))


# ------------------------------------------------------------------ messages

ALWAYS_TYPE = [False]     # True: every complex element spells xsi:type, also when it is its declared type
PREFIX_SCHEME = ['plain']     # 'plain' | 'adversarial' (set by the checks that vary it)


def _nsmap_for(built, extra=()):
    nss = [built.tns] + [c['ns'] for c in built.program.get('classes', []) if c.get('ns')] + list(extra)
    if PREFIX_SCHEME[0] == 'adversarial':
        # a client is free to choose its prefixes: the ones a Spyne interface hands out itself (tns, xs, s0, s1 ...) are
        # bound to decoy namespaces here and the real namespaces get other prefixes
        real = []
        for n in nss:
            if n not in real:
                real.append(n)
        out = {'xsi': XSI, 'xs': 'urn:vf:decoy:xs'}
        # cross-binding: the prefixes Spyne would use, handed to the namespaces in the opposite order (tns names the last
        # namespace of the document, s0 the one before ...); left-over Spyne prefixes name decoys
        names = ['tns', 's0', 's1', 's2', 's3']
        if len(real) == 1:
            out['w0'] = real[0]
            for nm in names:
                out[nm] = 'urn:vf:decoy:' + nm
        else:
            for nm, n in zip(names, reversed(real)):
                out[nm] = n
            for nm in names[len(real):]:
                out[nm] = 'urn:vf:decoy:' + nm
        return out
    out = {'tns': built.tns, 'xsi': XSI}
    i = 0
    for n in nss:
        if n not in out.values():
            out['s%d' % i] = n
            i += 1
    return out


def envelope_ns(proto):
    return {'soap11': SOAP11, 'soap12': SOAP12}.get(proto)


def in_message_name(m):
    kw = m.get('kw') or {}
    return kw.get('_in_message_name') or kw.get('_operation_name') or m['n']


def out_message_name(m):
    kw = m.get('kw') or {}
    return kw.get('_out_message_name') or ('%sResponse' % (kw.get('_operation_name') or m['n']))


def body_style(m):
    return (m.get('kw') or {}).get('_body_style', 'wrapped')


def build_request(codec, m, args, proto, header=None):
    """-> bytes.  m = method spec, args = list of reference values, header = {class name: Obj} or None"""
    b = codec.b
    nsmap = _nsmap_for(b)
    env = envelope_ns(proto)
    if env:
        nsmap['senv'] = env
    root_decl = codec.s.global_element(b.tns, in_message_name(m))
    root = etree.Element(root_decl.tag, nsmap=nsmap)
    style = body_style(m)
    margs = m.get('args', [])
    if style == 'bare':
        if margs:
            t = margs[0][1]
            v = args[0]
            if v is None:
                root.set(q(XSI, 'nil'), 'true')
            else:
                codec.fill(root, root_decl, t, v)
    else:
        ct = codec.s.complex(root_decl)
        ps, _ = codec.s.all_particles(ct)
        byname = {a[0]: (a[1], v) for a, v in zip(margs, args)}
        if [p.name for p in ps] != [a[0] for a in margs]:
            raise SchemaError('request message %s lists %s, signature has %s' % (root_decl.name, [p.name for p in ps], [a[0] for a in margs]))
        for p in ps:
            t, v = byname[p.name]
            codec.emit(root, p, t, v)
    if not env:
        doc = root
    else:
        doc = etree.Element(q(env, 'Envelope'), nsmap=nsmap)
        if header:
            h = etree.SubElement(doc, q(env, 'Header'))
            for cname, hv in header.items():
                if hv is None:
                    continue
                hq = codec.class_q(cname)
                try:
                    hd = codec.s.global_element(hq[0], hq[1])
                except SchemaError:
                    hd = Decl(hq[1], hq[0], hq, 1, 1, False)
                he = etree.SubElement(h, hd.tag)
                codec.fill(he, hd, ['c', cname], hv)
        body = etree.SubElement(doc, q(env, 'Body'))
        body.append(root)
    return etree.tostring(doc, xml_declaration=True, encoding='UTF-8')


def parse_request(codec, m, data, proto):
    """-> list of argument values read from a wrapped-style request under the published schema (what a schema-driven,
    non-Spyne server would make of it; names are namespace-qualified, order is the schema's)"""
    try:
        root = etree.fromstring(data)
    except etree.XMLSyntaxError as e:
        raise DecodeError('request is not well-formed XML: %s' % e)
    env = envelope_ns(proto)
    if env:
        if root.tag != q(env, 'Envelope'):
            raise DecodeError('root is %s, not a %s Envelope' % (root.tag, proto))
        body = root.find(q(env, 'Body'))
        kids = [c for c in body if isinstance(c.tag, str)] if body is not None else []
        if len(kids) != 1:
            raise DecodeError('Body has %d children' % len(kids))
        payload = kids[0]
    else:
        payload = root
    decl = codec.s.global_element(codec.b.tns, in_message_name(m))
    if payload.tag != decl.tag:
        raise DecodeError('request element is %s, the schema declares %s' % (payload.tag, decl.tag))
    if body_style(m) == 'bare':
        raise SchemaError('bare requests are not read back')
    ct = codec.s.complex(decl)
    ps, _ = codec.s.all_particles(ct)
    margs = m.get('args', [])
    if [p.name for p in ps] != [a[0] for a in margs]:
        raise SchemaError('request message %s lists %s, signature has %s' % (decl.name, [p.name for p in ps], [a[0] for a in margs]))
    children = [c for c in payload if isinstance(c.tag, str)]
    pos = 0
    vals = []
    for p, a in zip(ps, margs):
        v, pos = codec.take(children, pos, p, a[1])
        vals.append(v)
    if pos != len(children):
        raise DecodeError('unexpected element %s in request' % children[pos].tag)
    return vals


class FaultDoc(object):
    def __init__(self, code, string, actor=None, detail=None, subcodes=None):
        self.code, self.string, self.actor, self.detail = code, string, actor, detail
        self.subcodes = subcodes or []

    def __repr__(self):
        return 'FaultDoc(%r, %r)' % (self.code, self.string)


def _local(tag):
    return tag.split('}', 1)[1] if '}' in tag else tag


def parse_fault(el):
    """SOAP 1.1 style Fault element (also what XmlDocument emits) or SOAP 1.2 Fault"""
    ns = el.tag.split('}')[0][1:] if '}' in el.tag else None
    if ns == SOAP12:
        code = el.find(q(SOAP12, 'Code'))
        val = code.find(q(SOAP12, 'Value')).text if code is not None else None
        subs = []
        sc = code.find(q(SOAP12, 'Subcode')) if code is not None else None
        while sc is not None:
            v = sc.find(q(SOAP12, 'Value'))
            subs.append(v.text if v is not None else None)
            sc = sc.find(q(SOAP12, 'Subcode'))
        reason = el.find(q(SOAP12, 'Reason'))
        text = reason.find(q(SOAP12, 'Text')).text if reason is not None and reason.find(q(SOAP12, 'Text')) is not None else None
        det = el.find(q(SOAP12, 'Detail'))
        return FaultDoc(val, text, None, det, subs)
    code = string = actor = detail = None
    for ch in el:
        if not isinstance(ch.tag, str):
            continue
        l = _local(ch.tag)
        if l == 'faultcode':
            code = ch.text
        elif l == 'faultstring':
            string = ch.text
        elif l == 'faultactor':
            actor = ch.text
        elif l == 'detail':
            detail = ch
    return FaultDoc(code, string, actor, detail)


def parse_response(codec, m, data, proto):
    """-> ('ok', value or tuple of values, out header dict) | ('fault', FaultDoc, None)"""
    try:
        root = etree.fromstring(data)
    except etree.XMLSyntaxError as e:
        raise DecodeError('response is not well-formed XML: %s' % e)
    env = envelope_ns(proto)
    headers = {}
    if env:
        if root.tag != q(env, 'Envelope'):
            raise DecodeError('root is %s, not a %s Envelope' % (root.tag, proto))
        body = root.find(q(env, 'Body'))
        if body is None:
            raise DecodeError('no Body')
        hdr = root.find(q(env, 'Header'))
        if hdr is not None:
            for he in hdr:
                if isinstance(he.tag, str):
                    headers[_local(he.tag)] = he
        kids = [c for c in body if isinstance(c.tag, str)]
        if len(kids) != 1:
            raise DecodeError('Body has %d children' % len(kids))
        payload = kids[0]
    else:
        payload = root
    if _local(payload.tag) == 'Fault':
        return ('fault', parse_fault(payload), None)
    b = codec.b
    decl = codec.s.global_element(b.tns, out_message_name(m))
    if payload.tag != decl.tag:
        raise DecodeError('response element is %s, the schema declares %s' % (payload.tag, decl.tag))
    ret = m.get('ret')
    style = body_style(m)
    hv = {}
    for cname in (m.get('out_header') or []):
        he = headers.get(cname)
        if he is not None:
            hq = codec.class_q(cname)
            # (a header block that is present but nil denotes "no value" for that header: read leniently)
            hv[cname] = codec.read(he, Decl(hq[1], hq[0], hq, 1, 1, True), ['c', cname])
    if style in ('bare', 'out_bare'):
        if ret is None:
            return ('ok', None, hv)
        if payload.get(q(XSI, 'nil')) in ('true', '1'):
            return ('ok', None, hv)
        d2 = Decl(decl.name, decl.ns, decl.type, 1, 1, True, decl.inline)
        if ret[0] in ('p', 'c', 'e') and _multi(ret):
            raise SchemaError('bare repeated return')
        return ('ok', codec.read(payload, d2, ret), hv)
    ct = codec.s.complex(decl)
    ps, _ = codec.s.all_particles(ct)
    rets = [] if ret is None else (ret if isinstance(ret[0], list) else [ret])
    if len(ps) != len(rets):
        raise SchemaError('response message %s has %d particles, signature returns %d values' % (decl.name, len(ps), len(rets)))
    children = [c for c in payload if isinstance(c.tag, str)]
    pos = 0
    vals = []
    for p, t in zip(ps, rets):
        v, pos = codec.take(children, pos, p, t)
        vals.append(v)
    if pos != len(children):
        raise DecodeError('unexpected element %s in response' % children[pos].tag)
    if ret is None:
        return ('ok', None, hv)
    if not isinstance(ret[0], list):
        return ('ok', vals[0], hv)
    return ('ok', tuple(vals), hv)
