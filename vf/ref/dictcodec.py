"""Reference codec for the dict-document family (JSON, YAML, MessagePack, MessagePackRpc), written from the
documented conventions (DESIGN Appendix C); independent of spyne.  Documents are plain Python values that are
(de)serialised with stdlib json / PyYAML / msgpack."""
import base64
import decimal
import json
import uuid

from vf.ref import xsdlex, validity
from vf.ref.xsdcodec import print_prim, parse_prim, FaultDoc
from vf.tagged import Obj


class DecodeError(Exception):
    pass


class NotDenotable(Exception):
    pass


def _strip(t):
    while t[0] in ('xa', 'xd', 'm'):
        t = t[1]
    return t


def _single(t):
    a = dict(t[2]) if len(t) > 2 and t[2] else {}
    a.pop('max_occurs', None)
    return [t[0], t[1], a]


def _elem(t):
    """the type of ONE member of an array whose element type carries occurrence bounds of its own"""
    return _single(t) if t[0] in ('p', 'c', 'e') else t


INT_NAMES = set(n for n, x in xsdlex.XS_OF.items() if x in xsdlex.INT_RANGES)


class DictCodec(object):
    def __init__(self, built, wire, ignore_wrappers=True, complex_as='dict', polymorphic=False, text_keys=True):
        self.b = built
        self.wire = wire            # json | yaml | msgpack | msgpackrpc
        self.iw = ignore_wrappers
        self.as_list = complex_as == 'list'
        self.poly = polymorphic
        self.text_keys = text_keys  # msgpack: str keys (True) or bin keys (False)
        self.response_side = False

    # ------------------------------------------------------------ values -> doc
    def enc(self, t, v, top=False):
        if validity.is_multi(t):
            from vf.ref import special
            if v is None or v is special.Absent or v is special.Nil:
                return None
            return [self.enc1(_single(_strip(t)), x) for x in v]
        return self.enc1(t, v)

    def enc1(self, t, v):
        from vf.ref import special
        t = _strip(t)
        if v is None or v is special.Nil:
            return None
        if isinstance(v, special.Raw):
            return v.text
        k = t[0]
        if k == 'e':
            return v
        if k == 'a':
            return [self.enc(_elem(t[1]), x) for x in v]
        if k == 'c':
            fields = self.b.flat_fields(v.cls)
            if self.as_list:
                doc = [self.enc(ft, v.f.get(fn)) for fn, ft in fields]
            else:
                doc = {}
                for fn, ft in fields:
                    fv = v.f.get(fn)
                    from vf.ref import special
                    if fv is special.Absent:
                        continue
                    if fv is special.Nil:
                        doc[self.key(fn)] = None
                        continue
                    if fv is None:
                        mn, _ = validity.occurs(ft)
                        if mn > 0:
                            doc[self.key(fn)] = None
                        continue
                    doc[self.key(fn)] = self.enc(ft, fv)
            if not self.iw and not (self.as_list and self.response_side):
                return {self.key(v.cls): doc}
            return doc
        name = t[1]
        if name in INT_NAMES:
            if self.wire.startswith('msgpack') and not (-(1 << 63) <= v < (1 << 64)):
                return str(v)
            return v
        if name in ('Double', 'Float'):
            return float(v)
        if name == 'Boolean':
            return v
        if name == 'ByteArray':
            explicit = (t[2] or {}).get('encoding') if len(t) > 2 else None
            if self.wire.startswith('msgpack') and not explicit:
                return bytes(v)
            return print_prim(t, v)
        if name in ('Unicode', 'String', 'AnyUri'):
            return v
        return print_prim(t, v)      # decimals, dates, durations, uuids as text

    def key(self, s):
        if self.wire.startswith('msgpack') and not self.text_keys:
            return s.encode('utf8')
        return s

    # ------------------------------------------------------------ doc -> values
    def dec(self, t, d):
        if validity.is_multi(t):
            if d is None:
                return None
            if not isinstance(d, (list, tuple)):
                raise DecodeError('expected a list for a repeated member, got %r' % (d,))
            return [self.dec1(_single(_strip(t)), x) for x in d]
        return self.dec1(t, d)

    def _text(self, d):
        if isinstance(d, bytes):
            try:
                return d.decode('utf8')
            except UnicodeDecodeError:
                raise DecodeError('undecodable text %r' % d)
        return d

    def dec1(self, t, d):
        t = _strip(t)
        if d is None:
            return None
        k = t[0]
        if k == 'e':
            return self._text(d)
        if k == 'a':
            if not isinstance(d, (list, tuple)):
                raise DecodeError('expected a list for an array, got %r' % (d,))
            return [self.dec(_elem(t[1]), x) for x in d]
        if k == 'c':
            cname = t[1]
            if not self.iw and not (self.as_list and isinstance(d, (list, tuple))):
                if not isinstance(d, dict) or len(d) != 1:
                    raise DecodeError('expected a one-key wrapper map for %s, got %r' % (cname, d))
                (wk, d), = d.items()
                wk = self._text(wk)
                if wk != cname:
                    if wk not in self.b.cdefs or not self.b.is_subclass(wk, cname):
                        raise DecodeError('wrapper key %r is not %s or a subclass' % (wk, cname))
                    cname = wk
            fields = self.b.flat_fields(cname)
            vals = {}
            if isinstance(d, (list, tuple)):
                if len(d) != len(fields):
                    raise DecodeError('positional object of %s has %d items, class has %d fields' % (cname, len(d), len(fields)))
                for (fn, ft), x in zip(fields, d):
                    vals[fn] = self.dec(ft, x)
            elif isinstance(d, dict):
                dd = {self._text(kk): vv for kk, vv in d.items()}
                known = set(fn for fn, _ in fields)
                for kk in dd:
                    if kk not in known:
                        raise DecodeError('unknown member %r in %s' % (kk, cname))
                for fn, ft in fields:
                    vals[fn] = self.dec(ft, dd.get(fn))
            else:
                raise DecodeError('expected a map or list for %s, got %r' % (cname, d))
            return Obj(cname, **vals)
        name = t[1]
        if name in INT_NAMES:
            if isinstance(d, bool):
                raise DecodeError('bool where an integer is expected')
            if isinstance(d, int):
                return d
            if isinstance(d, (str, bytes)):
                try:
                    return xsdlex.parse_integer(self._text(d))
                except xsdlex.LexError:
                    raise DecodeError('bad integer text %r' % (d,))
            raise DecodeError('expected an integer, got %r' % (d,))
        if name in ('Double', 'Float'):
            if isinstance(d, bool) or not isinstance(d, (int, float)):
                raise DecodeError('expected a number, got %r' % (d,))
            return float(d)
        if name == 'Boolean':
            if not isinstance(d, bool):
                raise DecodeError('expected a bool, got %r' % (d,))
            return d
        if name == 'ByteArray':
            explicit = (t[2] or {}).get('encoding') if len(t) > 2 else None
            if explicit and isinstance(d, bytes):
                d = self._text(d)
            elif self.wire.startswith('msgpack') and isinstance(d, bytes):
                return d
            if isinstance(d, (list, tuple)) and all(isinstance(x, bytes) for x in d):
                return b''.join(d)
            if not isinstance(d, str):
                raise DecodeError('expected base64 text, got %r' % (d,))
            try:
                return parse_prim(t, d)
            except xsdlex.LexError as e:
                raise DecodeError('bad binary text %r (%s)' % (d, e))
        d = self._text(d)
        if name == 'Decimal' and isinstance(d, (int, float)) and not isinstance(d, bool):
            return decimal.Decimal(repr(d))
        if not isinstance(d, str):
            raise DecodeError('expected text for %s, got %r' % (name, d))
        try:
            return parse_prim(t, d)
        except xsdlex.LexError as e:
            raise DecodeError('%r is not a literal of %s (%s)' % (d, name, e))

    # ------------------------------------------------------------ messages
    def request_doc(self, m, args):
        margs = m.get('args', [])
        style = (m.get('kw') or {}).get('_body_style', 'wrapped')
        name = (m.get('kw') or {}).get('_in_message_name') or (m.get('kw') or {}).get('_operation_name') or m['n']
        if style == 'bare':
            body = self.enc(margs[0][1], args[0]) if margs else {}
            return {self.key(name): body}
        if self.as_list:
            body = [self.enc(a[1], v) for a, v in zip(margs, args)]
        else:
            body = {}
            for a, v in zip(margs, args):
                from vf.ref import special
                if v is special.Absent:
                    continue
                if v is special.Nil:
                    body[self.key(a[0])] = None
                    continue
                if v is None:
                    mn, _ = validity.occurs(a[1])
                    if mn > 0:
                        body[self.key(a[0])] = None
                    continue
                body[self.key(a[0])] = self.enc(a[1], v)
        if self.wire == 'msgpackrpc':
            # msgpack-rpc: [type=0, msgid, method, params]; params is the argument map / positional list, inside a
            # {method: ...} wrapper when wrappers are not ignored
            return [0, 1, name, body if self.iw else {self.key(name): body}]
        return {self.key(name): body}

    def dumps(self, doc):
        if self.wire == 'json':
            return json.dumps(doc).encode('utf8')
        if self.wire == 'yaml':
            import yaml
            return yaml.safe_dump(doc, allow_unicode=True).encode('utf8')
        import msgpack
        return msgpack.packb(doc, use_bin_type=True)

    def loads(self, data):
        if self.wire == 'json':
            return json.loads(data.decode('utf8'))
        if self.wire == 'yaml':
            import yaml
            return yaml.safe_load(data.decode('utf8'))
        import msgpack
        return msgpack.unpackb(data, raw=False, strict_map_key=False)

    def request_bytes(self, m, args):
        doc = self.request_doc(m, args)
        data = self.dumps(doc)
        if self.wire == 'yaml':
            # PyYAML cannot round-trip some strings itself (NEL / LS line folding): a peer limitation, not a
            # property of the code under test
            if self.loads(data) != doc:
                raise NotDenotable('PyYAML does not round-trip this document')
        return data

    def fault_of(self, d, known_fault=False):
        """recognise a dict-family fault document; known_fault: the transport already said it is one"""
        if self.wire == 'msgpackrpc':
            if isinstance(d, list) and len(d) == 3 and d[0] == 3:
                return self.fault_of_plain(d[2], known_fault)
            if isinstance(d, list) and len(d) == 4 and d[0] == 1 and d[2] is not None:
                return self.fault_of_plain(d[2], known_fault)
            return None
        return self.fault_of_plain(d, known_fault)

    def fault_of_plain(self, d, known_fault=False):
        if isinstance(d, dict):
            dd = {self._text(k): v for k, v in d.items()}
            if len(dd) == 1 and list(dd)[0] == 'Fault' or (len(dd) == 1 and isinstance(list(dd.values())[0], dict) and 'faultcode' in {self._text(k) for k in list(dd.values())[0]}):
                inner = list(dd.values())[0]
                dd = {self._text(k): v for k, v in inner.items()}
            if 'faultcode' in dd:
                return FaultDoc(self._text(dd.get('faultcode')), self._text(dd.get('faultstring')), self._text(dd.get('faultactor')), dd.get('detail'))
        if isinstance(d, (list, tuple)) and len(d) >= 2 and isinstance(self._text(d[0]), str) and \
                (known_fault or self._text(d[0]).split('.')[0] in ('Client', 'Server')) and isinstance(self._text(d[1]), str) and len(d) <= 4:
            return FaultDoc(self._text(d[0]), self._text(d[1]), self._text(d[2]) if len(d) > 2 else None, d[3] if len(d) > 3 else None)
        if isinstance(d, (list, tuple)) and len(d) == 1 and isinstance(d[0], (list, tuple, dict)):
            return self.fault_of_plain(d[0], known_fault)
        return None

    def parse_response(self, m, data, is_fault=None):
        """-> ('ok', value(s)) | ('fault', FaultDoc).  is_fault: what the transport knows (fault or not), if anything"""
        try:
            d = self.loads(data)
        except Exception as e:
            raise DecodeError('response is not a %s document: %r' % (self.wire, e))
        if is_fault is not False:
            f = self.fault_of(d)
            if f is not None and (is_fault or not self._could_be_value(m, d)):
                return ('fault', f)
        if self.wire == 'msgpackrpc':
            if not (isinstance(d, list) and len(d) == 4 and d[0] == 1):
                raise DecodeError('not a msgpack-rpc response: %r' % (d,))
            if d[2] is not None:
                raise DecodeError('msgpack-rpc error %r' % (d[2],))
            d = d[3]
        ret = m.get('ret')
        style = (m.get('kw') or {}).get('_body_style', 'wrapped')
        rets = [] if ret is None else (ret if isinstance(ret[0], list) else [ret])
        mname = (m.get('kw') or {}).get('_operation_name') or m['n']
        oname = (m.get('kw') or {}).get('_out_message_name') or mname + 'Response'
        if style in ('bare', 'out_bare'):
            if ret is None:
                return ('ok', None)
            return ('ok', self.dec(ret, d))
        rpc = self.wire == 'msgpackrpc'
        if self.as_list:
            if not rpc and len(rets) == 1 and self.iw:
                return ('ok', self.dec(rets[0], d))
            if not isinstance(d, (list, tuple)):
                raise DecodeError('expected positional response list, got %r' % (d,))
            if len(d) != len(rets):
                raise DecodeError('positional response has %d items for %d return values' % (len(d), len(rets)))
            vals = [self.dec(t, x) for t, x in zip(rets, d)]
        else:
            if not self.iw:
                if not isinstance(d, dict) or len(d) != 1 or self._text(list(d)[0]) != oname:
                    raise DecodeError('expected {"%s": ...}, got %r' % (oname, d))
                d = list(d.values())[0]
            if self.iw and not rpc and len(rets) == 1:
                return ('ok', self.dec(rets[0], d))
            if not isinstance(d, dict):
                raise DecodeError('expected a map of results, got %r' % (d,))
            dd = {self._text(k): v for k, v in d.items()}
            names = [mname + 'Result'] if len(rets) == 1 else ['%sResult%d' % (mname, i) for i in range(len(rets))]
            for kk in dd:
                if kk not in names:
                    raise DecodeError('unexpected result key %r' % kk)
            vals = [self.dec(t, dd.get(n)) for t, n in zip(rets, names)]
        if ret is None:
            return ('ok', None)
        if not isinstance(ret[0], list):
            return ('ok', vals[0])
        return ('ok', tuple(vals))

    def _could_be_value(self, m, d):
        return False
