"""zeep driven from the WSDL bytes alone, with an in-process transport that posts to the WSGI application."""
import io

from vf import drv
from vf.tagged import Obj


def make_client(wsdl_bytes, wsgi_app, url='http://localhost/app', rec=None):
    import requests
    import zeep
    from zeep.transports import Transport
    from zeep.cache import InMemoryCache

    class InProc(Transport):
        def __init__(self):
            Transport.__init__(self, cache=None)
            self.last_request = self.last_response = None
            self.last_status = None

        def load(self, u):
            if u.split('?')[0].rstrip('/') == url.rstrip('/') or u.endswith('wsdl'):
                return wsdl_bytes
            raise IOError('offline: %s' % u)

        def post(self, address, message, headers):
            self.last_request = message
            env = drv.environ('POST', '/app', '', message, content_type=headers.get('Content-Type', 'text/xml; charset=utf-8'),
                              headers={k: v for k, v in headers.items() if k.lower() not in ('content-type', 'content-length')})
            o = drv.call_wsgi(wsgi_app, env)
            if o.escaped is not None:
                raise o.escaped
            r = requests.Response()
            r.status_code = int((o.status or '500')[:3])
            r._content = o.out or b''
            r.headers.update(dict(o.headers or []))
            r.encoding = 'utf-8'
            self.last_response = r._content
            self.last_status = r.status_code
            return r

    t = InProc()
    settings = zeep.Settings(strict=True, xml_huge_tree=False)
    client = zeep.Client(url + '?wsdl', transport=t, settings=settings)
    client._vf_transport = t
    return client


def to_zeep_arg(client, built, t, v):
    """reference value -> value zeep accepts (dicts for objects)"""
    if v is None:
        return None
    while t[0] in ('xa', 'xd', 'm'):
        t = t[1]
    if t[0] == 'a':
        # wrapped array: complex type with one repeated member named after the member type
        return {'_array_': [to_zeep_arg(client, built, t[1], x) for x in v]}
    if isinstance(v, list):
        t1 = [t[0], t[1], {k: x for k, x in (t[2] or {}).items() if k != 'max_occurs'}]
        return [to_zeep_arg(client, built, t1, x) for x in v]
    if t[0] == 'c':
        fields = dict(built.flat_fields(v.cls))
        return {k: to_zeep_arg(client, built, fields[k], x) for k, x in v.f.items() if x is not None}
    return v


def from_zeep(built, t, z):
    """zeep result -> reference value"""
    if z is None:
        return None
    while t[0] in ('xa', 'xd', 'm'):
        t = t[1]
    a = t[2] if len(t) > 2 and t[2] else {}
    mo = a.get('max_occurs', 1)
    if t[0] in ('p', 'c', 'e') and (mo == 'unbounded' or (isinstance(mo, int) and mo > 1)):
        t1 = [t[0], t[1], {k: x for k, x in a.items() if k != 'max_occurs'}]
        return [from_zeep(built, t1, x) for x in (z or [])]
    if t[0] == 'a':
        # zeep gives an object with one attribute holding the list
        import zeep.helpers
        d = zeep.helpers.serialize_object(z, dict)
        if isinstance(d, dict):
            vals = list(d.values())
            inner = vals[0] if vals else []
            zs = list(getattr(z, list(d.keys())[0])) if d else []
        else:
            zs = list(z)
        return [from_zeep(built, t[1], x) for x in zs]
    if t[0] == 'c':
        cname = t[1]
        vals = {}
        for fn, ft in built.flat_fields(cname):
            # (zeep keeps the character data of a simpleContent type in _value_1)
            vals[fn] = from_zeep(built, ft, getattr(z, '_value_1' if ft[0] == 'xd' else fn, None))
        return Obj(cname, **vals)
    if t[0] == 'p' and t[1] == 'ByteArray':
        if isinstance(z, str):
            from vf.ref import xsdcodec
            return xsdcodec.parse_prim(t, z)
        return bytes(z)
    if t[0] == 'p' and t[1] == 'Uuid' and isinstance(z, str):
        import uuid
        return uuid.UUID(z)
    return z


def zeep_value(codec, decl, t, v):
    """reference value -> nested dicts/lists keyed by the names the published schema uses (same walk as the
    reference codec, but producing zeep input instead of elements)"""
    from vf.ref import xsdcodec
    if v is None:
        return None
    while t[0] in ('xa', 'xd', 'm'):
        t = t[1]
    if t[0] in ('p', 'c', 'e') and xsdcodec._multi(t):
        t1 = xsdcodec._single(t)
        return [zeep_value(codec, decl, t1, x) for x in v]
    if t[0] == 'a':
        ct = codec.s.complex(decl)
        ps, _ = codec.s.all_particles(ct)
        m = ps[0]
        mt = t[1]
        return {m.name: [zeep_value(codec, m, xsdcodec._single(mt) if mt[0] in ('p', 'c', 'e') else mt, x) for x in v]}
    if t[0] == 'c':
        ct = codec.s.complex(decl)
        ps, ats = codec.s.all_particles(ct)
        fields = dict(codec.b.flat_fields(v.cls))
        out = {}
        for p in ps:
            if p.name in fields and v.f.get(p.name) is not None:
                out[p.name] = zeep_value(codec, p, fields[p.name], v.f[p.name])
        for an, ans, atq, use in ats:
            if an in fields and v.f.get(an) is not None:
                out[an] = v.f[an]
        for fn, ft in fields.items():
            if ft[0] == 'xd' and v.f.get(fn) is not None:
                out['_value_1'] = v.f[fn]
        return out
    if t[0] == 'p' and t[1] == 'Uuid':
        return str(v)
    if t[0] == 'p' and t[1] == 'ByteArray' and (t[2] or {}).get('encoding') in ('hex', 'urlsafe_base64'):
        # the schema type is xs:hexBinary / xs:string: zeep passes such values through as text
        return xsdcodec.print_prim(t, v)
    return v


def find_operation(client, opname):
    """the operation proxy, whichever service / port of the WSDL declares it"""
    for sname, svc in client.wsdl.services.items():
        for pname, port in svc.ports.items():
            if opname in port.binding._operations:
                return getattr(client.bind(sname, pname), opname)
    raise AttributeError('no service/port of the WSDL has operation %r' % opname)
