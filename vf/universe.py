"""Program universe (DESIGN 2.1): level A = every atom in every position, level B = every small shape.
Pure data (program specs + value embeddings); independent of spyne."""
import copy
import datetime as _dt
import itertools

from vf import tagged, values
from vf.ref import validity
from vf.tagged import Obj

E = tagged.enc
TNS = 'urn:vf:tns'


def P(name, **a):
    return ['p', name, {k: (v if isinstance(v, (int, str, bool, list)) else E(v)) for k, v in a.items()}]


def atoms(tier='quick'):
    """[(atom id, type ref)] - the atom alphabet T"""
    d = _dt.date
    dt = _dt.datetime
    A = [
        ('Integer', P('Integer')), ('Integer(ge,le)', P('Integer', ge=-5, le=5)),
        ('Integer(gt,lt)', P('Integer', gt=-5, lt=5)),
        ('Long', P('Long')), ('Int', P('Int')), ('Short', P('Short')), ('Byte', P('Byte')),
        ('UnsignedLong', P('UnsignedLong')), ('UnsignedInt', P('UnsignedInt')),
        ('UnsignedShort', P('UnsignedShort')), ('UnsignedByte', P('UnsignedByte')),
        ('Decimal', P('Decimal')), ('Decimal(td,fd)', ['p', 'Decimal', {'total_digits': 6, 'fraction_digits': 2}]),
        ('Decimal(gt)', ['p', 'Decimal', {'gt': E(tagged.decimal.Decimal('0'))}]),
        ('Double', P('Double')), ('Float', P('Float')), ('Boolean', P('Boolean')),
        ('Unicode', P('Unicode')), ('Unicode(len)', P('Unicode', min_len=1, max_len=5)),
        ('Unicode(pattern)', P('Unicode', pattern='[a-z]+')), ('Unicode(values)', P('Unicode', values=['a', 'hello world', 'true'])),
        ('AnyUri', P('AnyUri')), ('Uuid', P('Uuid')),
        ('DateTime', P('DateTime')), ('DateTime(timezone=False)', P('DateTime', timezone=False)),
        ('DateTime(ge,le)', ['p', 'DateTime', {'ge': E(dt(1999, 1, 1, tzinfo=tagged.tz(0))), 'le': E(dt(2030, 1, 1, tzinfo=tagged.tz(0)))}]),
        ('Date', P('Date')), ('Date(ge,le)', ['p', 'Date', {'ge': E(d(1999, 12, 31)), 'le': E(d(2024, 1, 1))}]),
        ('Time', P('Time')), ('Duration', P('Duration')),
        ('ByteArray', P('ByteArray')), ('ByteArray(hex)', P('ByteArray', encoding='hex')),
        ('ByteArray(urlsafe_base64)', P('ByteArray', encoding='urlsafe_base64')),
        ('Enum', ['e', 'Color', {}]),
        ('Integer(nillable=False)', P('Integer', nillable=False)), ('Integer(min_occurs=1)', P('Integer', min_occurs=1)),
        ('Mandatory(Integer)', ['m', P('Integer')]),
        ('Unicode(nillable=False)', P('Unicode', nillable=False)), ('Unicode(min_occurs=1)', P('Unicode', min_occurs=1)),
        ('Mandatory(Unicode)', ['m', P('Unicode')]),
        ('Date(min_occurs=1)', P('Date', min_occurs=1)), ('Mandatory(Date)', ['m', P('Date')]),
        # a complex type as the atom: nullability and occurrence of object-valued slots
        ('Obj', ['c', 'Q', {}]), ('Obj(nillable=False)', ['c', 'Q', {'nillable': False}]), ('Obj(min_occurs=1)', ['c', 'Q', {'min_occurs': 1}]),
        ('Obj(min_occurs=1,nillable=False)', ['c', 'Q', {'min_occurs': 1, 'nillable': False}]),
    ]
    return A


# atoms only the schema-driven XML reference codec can spell (the convention codecs address members by attribute name)
XML_ONLY_ATOMS = {'Integer(sub_name)', 'Unicode(sub_name)'}
ATOM_CLASSES = {'Q': {'n': 'Q', 'fields': [['q', ['p', 'Integer', {}]], ['qs', ['p', 'Unicode', {}]]]}}


# (a second enumeration, declared later and never used in a signature, shares a member name with the first: the members of
# one enumeration are its own)
ENUMS = {'Color': ['red', 'green', 'dark blue'], 'Tint': ['green', 'pale']}


def atom_values(t, tier='quick', limit=None):
    """conformant [(label, value)] for an atom type (without the None case)"""
    bt = validity.base_of(t)
    if bt[0] == 'c':
        return [('obj', Obj(bt[1], q=1, qs='s')), ('obj-partial', Obj(bt[1], q=None, qs='only')), ('obj-empty', Obj(bt[1], q=None, qs=None))]
    if bt[0] == 'e':
        vals = [('member', x) for x in ENUMS[bt[1]]]
    else:
        name = bt[1]
        if name == 'DateTime':
            vals = values.datetimes(values.OFFSET_SUBSET if tier == 'thorough' else [0, 330, -210, -30, 840, -840],
                                    values.MICROS if tier == 'thorough' else [0, 5, 500000])
            # one instant spelled with two offsets, one after the other (equal as values, different on the wire)
            inst = _dt.datetime(2021, 3, 4, 12, 0, 0, tzinfo=tagged.tz(0))
            vals = [('same-instant-utc', inst), ('same-instant-offset', inst.astimezone(tagged.tz(120)))] + list(vals)
            if validity.attrs_of(t).get('timezone') is False:
                vals = [(l, v) for l, v in vals if v.tzinfo is None]
        else:
            vals = values.alphabet(name)
    out = []
    for l, v in vals:
        if validity.scalar_ok(t, v, None if bt[0] != 'e' else _EnumBuilt):
            out.append((l, v))
    if limit is not None and len(out) > limit:
        # keep the boundary-heavy classes: one per label first, then fill in order
        seen, pick = set(), []
        for l, v in out:
            if l not in seen:
                seen.add(l)
                pick.append((l, v))
        for l, v in out:
            if len(pick) >= limit:
                break
            if (l, v) not in pick:
                pick.append((l, v))
        out = pick[:max(limit, len(seen))]
    return out


class _EnumBuilt(object):
    """the little a validity predicate needs to know about the universe's programs (enums, the atom classes)"""
    program = {'enums': ENUMS}

    @staticmethod
    def is_subclass(sub, base):
        return sub == base

    @staticmethod
    def flat_fields(cname):
        return [(fn, ft) for fn, ft in ATOM_CLASSES[cname]['fields']]


def none_ok(t):
    return validity.conforms(t, None)


POSITIONS = ['arg', 'field', 'field2', 'array', 'seq', 'seq-arg', 'xmlattr', 'xmldata', 'ret-multi', 'header',
             'bare', 'out_bare', 'inherited', 'inherited-seq', 'header2a', 'header2b']
XML_ONLY = {'xmlattr', 'xmldata', 'header', 'header2a', 'header2b'}


def _single(t):
    """the atom without occurrence customisation (used inside arrays / sequences)"""
    return t


def program_for(atom_t, pos):
    """-> program spec, or None if the combination is not constructible"""
    prog = {'tns': TNS, 'enums': ENUMS, 'classes': [], 'services': []}
    I = ['p', 'Integer', {}]
    bt = validity.base_of(atom_t)
    if bt[0] == 'c' and bt[1] in ATOM_CLASSES:
        prog['classes'].append(copy.deepcopy(ATOM_CLASSES[bt[1]]))
    simple = bt[0] in ('p', 'e')
    m = {'n': 'm', 'args': [], 'ret': None}
    if pos == 'arg':
        m['args'] = [['a', atom_t], ['z', I]]
        m['ret'] = atom_t
    elif pos == 'field':
        prog['classes'].append({'n': 'P', 'fields': [['z', I], ['f', atom_t], ['y', I]]})
        m['args'] = [['a', ['c', 'P', {}]]]
        m['ret'] = ['c', 'P', {}]
    elif pos in ('inherited', 'inherited-seq'):
        # the member is declared in the parent class of the class the message uses
        ft = atom_t
        if pos == 'inherited-seq':
            if atom_t[0] != 'p' and atom_t[0] != 'e':
                return None
            ft = [atom_t[0], atom_t[1], dict(atom_t[2] or {}, max_occurs='unbounded')]
        # (a second hierarchy rides along: its derived class adds a mandatory member and its base class is a parameter type
        # of its own, used after the derived one - what is cached for a derived class must not leak into its base class)
        prog['classes'].append({'n': 'P0', 'fields': [['z', I], ['f', ft]]})
        prog['classes'].append({'n': 'P', 'base': 'P0', 'fields': [['y', ['p', 'Integer', {'min_occurs': 1}]]]})
        # (and that base class lives in a namespace of its own: an inherited member belongs to the namespace of the class
        # that declares it)
        prog['classes'].append({'n': 'B0', 'ns': 'urn:vf:base', 'fields': [['k', I]]})
        prog['classes'].append({'n': 'D0', 'base': 'B0', 'ns': TNS, 'fields': [['y2', ['p', 'Integer', {'min_occurs': 1}]]]})
        m['args'] = [['a', ['c', 'P', {}]], ['d', ['c', 'D0', {}]], ['b0', ['c', 'B0', {}]]]
        m['ret'] = ['c', 'P', {}]
    elif pos == 'field2':
        prog['classes'].append({'n': 'P', 'fields': [['f', atom_t]]})
        prog['classes'].append({'n': 'O', 'fields': [['p', ['c', 'P', {}]], ['z', I]]})
        m['args'] = [['a', ['c', 'O', {}]]]
        m['ret'] = ['c', 'O', {}]
    elif pos == 'array':
        if atom_t[0] == 'm':
            return None
        m['args'] = [['a', ['a', atom_t, {}]]]
        m['ret'] = ['a', atom_t, {}]
    elif pos in ('seq', 'seq-arg'):
        if atom_t[0] != 'p' and atom_t[0] != 'e':
            return None
        st = [atom_t[0], atom_t[1], dict(atom_t[2] or {}, max_occurs='unbounded')]
        if pos == 'seq':
            prog['classes'].append({'n': 'P', 'fields': [['z', I], ['f', st], ['y', I]]})
            m['args'] = [['a', ['c', 'P', {}]]]
            m['ret'] = ['c', 'P', {}]
        else:
            m['args'] = [['a', st], ['z', I]]
            m['ret'] = None
    elif pos == 'xmlattr':
        if not simple or bt[1] == 'ByteArray' and False:
            return None
        if 'sub_name' in (validity.attrs_of(atom_t) or {}):
            return None
        prog['classes'].append({'n': 'P', 'fields': [['z', I], ['f', ['xa', atom_t]]]})
        m['args'] = [['a', ['c', 'P', {}]]]
        m['ret'] = ['c', 'P', {}]
    elif pos == 'xmldata':
        if not simple:
            return None
        prog['classes'].append({'n': 'P', 'fields': [['f', ['xd', atom_t]], ['k', ['xa', I]]]})
        m['args'] = [['a', ['c', 'P', {}]]]
        m['ret'] = ['c', 'P', {}]
    elif pos == 'ret-multi':
        m['args'] = [['z', I], ['a', atom_t]]
        m['ret'] = [I, atom_t, I]
    elif pos == 'header':
        prog['classes'].append({'n': 'H', 'fields': [['f', atom_t], ['z', I]]})
        m['args'] = [['z', I]]
        m['ret'] = I
        m['in_header'] = ['H']
        m['out_header'] = ['H']
    elif pos in ('header2a', 'header2b'):
        # two header classes; one of them is left out (a: the first, b: the second)
        prog['classes'].append({'n': 'G', 'fields': [['g', ['p', 'Unicode', {}]]]})
        prog['classes'].append({'n': 'H', 'fields': [['f', atom_t], ['z', I]]})
        m['args'] = [['z', I]]
        m['ret'] = I
        m['in_header'] = ['G', 'H']
        m['out_header'] = ['G', 'H']
    elif pos == 'bare':
        prog['classes'].append({'n': 'P', 'fields': [['z', I], ['f', atom_t]]})
        m['args'] = [['a', ['c', 'P', {}]]]
        m['ret'] = ['c', 'P', {}]
        m['kw'] = {'_body_style': 'bare'}
    elif pos == 'out_bare':
        m['args'] = [['a', atom_t], ['z', I]]
        m['ret'] = atom_t
        m['kw'] = {'_body_style': 'out_bare'}
    else:
        raise ValueError(pos)
    prog['services'].append({'n': 'S', 'methods': [m]})
    return prog


def embed(pos, atom_t, v, v2=None, mode='one'):
    """-> (args, ret, in_header, out_header) reference values with atom value v in position pos.
    mode: 'one' single value; for array/seq positions v may be a list already."""
    if pos == 'arg' or pos == 'out_bare':
        return [v, 7], v, None, None
    if pos in ('inherited', 'inherited-seq'):
        o = Obj('P', z=1, f=v, y=2)
        return [o, Obj('D0', k=1, y2=2), Obj('B0', k=3)], o, None, None
    if pos in ('field', 'seq'):
        o = Obj('P', z=1, f=v, y=2)
        return [o], o, None, None
    if pos == 'bare':
        o = Obj('P', z=1, f=v)
        return [o], o, None, None
    if pos == 'field2':
        o = Obj('O', p=Obj('P', f=v), z=3)
        return [o], o, None, None
    if pos == 'array':
        return [v], v, None, None
    if pos == 'seq-arg':
        return [v, 7], None, None, None
    if pos == 'xmlattr':
        o = Obj('P', z=1, f=v)
        return [o], o, None, None
    if pos == 'xmldata':
        o = Obj('P', f=v, k=4)
        return [o], o, None, None
    if pos == 'ret-multi':
        return [7, v], (1, v, 2), None, None
    if pos == 'header':
        return [7], 8, {'H': Obj('H', f=v, z=5)}, {'H': Obj('H', f=v, z=6)}
    if pos == 'header2a':
        return [7], 8, {'G': None, 'H': Obj('H', f=v, z=5)}, {'G': None, 'H': Obj('H', f=v, z=6)}
    if pos == 'header2b':
        return [7], 8, {'G': Obj('G', g='gee'), 'H': None}, {'G': Obj('G', g='gee'), 'H': None}
    raise ValueError(pos)


def slot_values(pos, atom_t, tier, limit=None):
    """values for the slot of the position: scalars (+None), or lists for array/seq positions"""
    av = atom_values(atom_t, tier, limit)
    out = []
    if pos in ('array', 'seq', 'seq-arg', 'inherited-seq'):
        member_none = validity.nillable(atom_t)
        mn = validity.attrs_of(atom_t).get('min_occurs', 0)
        if pos == 'array' or mn == 0:
            out.append(('container-none', None))
        if mn == 0:
            out.append(('container-empty', []))
        for l, v in av:
            out.append(('one|' + l, [v]))
        if len(av) >= 2:
            out.append(('two', [av[0][1], av[-1][1]]))
            out.append(('two-rev', [av[-1][1], av[0][1]]))
        if av:
            out.append(('three-same', [av[0][1]] * 3))
            if member_none and pos == 'array':
                out.append(('none-member', [av[0][1], None, av[-1][1]]))
        return out
    if none_ok(atom_t) and not (pos == 'xmlattr' and validity.attrs_of(atom_t).get('min_occurs', 0) > 0) \
            and not (pos == 'out_bare' and not validity.nillable(atom_t)):
        # (a required attribute cannot be nil; the root of a bare message cannot be left out)
        out.append(('none', None))
    out.extend(av)
    if pos == 'xmldata':
        # character data cannot distinguish '' from absent: outside the domain (XML cannot denote the difference)
        out = [(l, v) for l, v in out if v is not None and v != '' and v != b'']
    return out


# ------------------------------------------------------------------ level B: small shapes

LEAVES = [('I', ['p', 'Integer', {}]), ('U', ['p', 'Unicode', {}]), ('D', ['p', 'Date', {}])]
HOLD = ['plain', 'array', 'seq']


def shapes(nfields, max_depth=3, max_per_obj=3, leaves=None):
    """all ordered trees with exactly <= nfields fields in total.  A shape is a list of fields; a field is
    (hold, leaf-name) or (hold, [fields])."""
    leaves = [l[0] for l in (leaves or LEAVES)]

    def objs(n, depth):
        """all objects (non-empty field lists) using exactly n fields in total, at the given remaining depth"""
        if n <= 0:
            return
        # distribute: first field consumes k (1 if leaf, 1+sub if object), the rest follows
        def fields_seq(n, count):
            if n == 0:
                yield []
                return
            if count >= max_per_obj:
                return
            for hold in HOLD:
                for lf in leaves:
                    for rest in fields_seq(n - 1, count + 1):
                        yield [(hold, lf)] + rest
                if depth > 1:
                    for sub_n in range(1, n):
                        for sub in objs(sub_n, depth - 1):
                            for rest in fields_seq(n - 1 - sub_n, count + 1):
                                yield [(hold, sub)] + rest
        for fs in fields_seq(n, 0):
            yield fs

    for n in range(1, nfields + 1):
        for o in objs(n, max_depth):
            yield o


def shape_program(shape, style='wrapped'):
    """program with class tree for the shape; the root object is the argument and the return value"""
    classes = []
    counter = [0]
    leaf_t = dict(LEAVES)

    def mk(fields):
        name = 'C%d' % counter[0]
        counter[0] += 1
        fl = []
        cdef = {'n': name, 'fields': fl}
        classes.append(cdef)
        for i, (hold, what) in enumerate(fields):
            if isinstance(what, str):
                t = copy.deepcopy(leaf_t[what])
            else:
                t = ['c', mk(what), {}]
            if hold == 'array':
                t = ['a', t, {}]
            elif hold == 'seq':
                t = [t[0], t[1], dict(t[2], max_occurs='unbounded')]
            fl.append(['f%d' % i, t])
        return name
    root = mk(shape)
    # classes must be defined before use: children are appended after parents -> reverse
    classes.reverse()
    m = {'n': 'm', 'args': [['a', ['c', root, {}]], ['z', ['p', 'Integer', {}]]], 'ret': ['c', root, {}]}
    if style != 'wrapped':
        m['kw'] = {'_body_style': style}
        if style == 'bare':
            m['args'] = [['a', ['c', root, {}]]]
    return {'tns': TNS, 'enums': ENUMS, 'classes': classes, 'services': [{'n': 'S', 'methods': [m]}]}, root


LEAF_VALUES = {'I': [None, 0, -(10 ** 30)], 'U': [None, '', 'a<&>b'], 'D': [None, _dt.date(2000, 2, 29), _dt.date(1, 1, 1)]}
SEQ_CHOICES = ['none', 'empty', 'one', 'two']


def shape_assignments(prog, root, cap=None):
    """every assignment of {None, v1, v2} to leaves and {None, [], [x], [x, y]} to containers (full product),
    yielded as reference values for the root class.  Container members take v1 / v2 in order."""
    cdefs = {c['n']: c for c in prog['classes']}

    def leaf_key(t):
        return {'Integer': 'I', 'Unicode': 'U', 'Date': 'D'}[t[1]]

    def options(t):
        """all reference values for a slot of type t"""
        if t[0] == 'a':
            inner = t[1]
            singles = [x for x in options(inner) if x is not None][:2]
            out = [None, []]
            if singles:
                out.append([singles[0]])
            if len(singles) > 1:
                out.append([singles[0], singles[1]])
            elif singles:
                out.append([singles[0], singles[0]])
            return out
        if validity.is_multi(t):
            st = [t[0], t[1], {k: v for k, v in t[2].items() if k != 'max_occurs'}]
            singles = [x for x in options(st) if x is not None][:2]
            out = [None]
            if singles:
                out.append([singles[0]])
                out.append([singles[0], singles[-1]])
            return out
        if t[0] == 'p':
            return LEAF_VALUES[leaf_key(t)]
        if t[0] == 'c':
            c = cdefs[t[1]]
            per_field = [options(ft) for fn, ft in c['fields']]
            out = [None]
            for combo in itertools.product(*per_field):
                out.append(Obj(t[1], **{fn: v for (fn, ft), v in zip(c['fields'], combo)}))
            return out
        raise ValueError(t)
    vals = [v for v in options(['c', root, {}]) if v is not None]
    if cap is not None and len(vals) > cap:
        # deterministic thinning that keeps first/last and a stride (reported as a cap by callers)
        step = len(vals) / float(cap)
        vals = [vals[int(i * step)] for i in range(cap)]
    return vals


# ------------------------------------------------------------------ level G: object graphs with aliasing (not cycles)

def alias_program(gid):
    """gid 'seg': m(a: Seg, z) -> Seg;  'arr': m(a: Array(P), z) -> Array(P);  'segs': m(a: Array(Seg), z) -> Array(Seg)"""
    I = ['p', 'Integer', {}]
    U = ['p', 'Unicode', {}]
    Pt = ['c', 'P', {}]
    classes = [{'n': 'P', 'fields': [['i', I], ['s', U]]},
               {'n': 'Seg', 'fields': [['start', Pt], ['end', Pt], ['mid', ['a', Pt, {}]],
                                       ['tail', ['c', 'P', {'max_occurs': 'unbounded'}]]]}]
    t = {'seg': ['c', 'Seg', {}], 'arr': ['a', Pt, {}], 'segs': ['a', ['c', 'Seg', {}], {}]}[gid]
    m = {'n': 'm', 'args': [['a', t], ['z', I]], 'ret': t}
    return {'tns': TNS, 'enums': ENUMS, 'classes': classes, 'services': [{'n': 'S', 'methods': [m]}]}


def alias_values(gid, tier='quick'):
    """every way of filling the P slots of the value with {absent, p, q} where all p's are ONE object and all q's are
    ONE other object (q carries different field values) -> [(label, value)]"""
    def mk(c):
        if c == '-':
            return None
        return Obj('P', i=1, s='p', _alias='p') if c == 'p' else Obj('P', i=2, s='q<&>', _alias='q')
    out = []
    if gid == 'arr':
        for n in (2, 3) if tier == 'quick' else (2, 3, 4):
            for combo in itertools.product('pq', repeat=n):
                if len(set(combo)) < n:      # at least one object occurs twice
                    out.append((''.join(combo), [mk(c) for c in combo]))
        return out
    def seg(combo):
        start, end, m0, m1, t0 = combo
        f = {}
        if start != '-':
            f['start'] = mk(start)
        if end != '-':
            f['end'] = mk(end)
        mid = [mk(c) for c in (m0, m1) if c != '-']
        if mid:
            f['mid'] = mid
        if t0 != '-':
            f['tail'] = [mk(t0)]
        return Obj('Seg', **f)

    def aliased(combo):
        cs = [c for c in combo if c != '-']
        return len(cs) > len(set(cs))
    if gid == 'seg':
        for combo in itertools.product('-pq', repeat=5):
            if aliased(combo):
                out.append((''.join(combo), seg(combo)))
        return out
    if gid == 'segs':
        # two segments sharing children: (start, end) of each over {-, p, q}; mid / tail unused
        for combo in itertools.product('-pq', repeat=4):
            if aliased(combo):
                a, b_, c, d = combo
                out.append((''.join(combo), [seg((a, b_, '-', '-', '-')), seg((c, d, '-', '-', '-'))]))
        if tier != 'quick':
            for combo in itertools.product('-pq', repeat=5):
                if aliased(combo):
                    s = seg(combo)
                    s.alias = 'S'
                    out.append(('same-seg-twice|' + ''.join(combo), [s, Obj('Seg'), s]))
        else:
            s = seg(('p', 'q', 'p', '-', 'q'))
            s.alias = 'S'
            out.append(('same-seg-twice', [s, Obj('Seg'), s]))
        return out
    raise ValueError(gid)


ALIAS_GIDS = ['seg', 'arr', 'segs']
