#!/bin/sh
# offline set-up: nothing to build (pure Python); verify the interpreter, imports and TLC.
cd "$(dirname "$0")" || exit 2
PYTHONPATH=/repo:/verif /venv/bin/python -c "import spyne, lxml, yaml, msgpack, zeep, vf.runner; print('imports ok', spyne.__file__)" || exit 1
command -v tlc >/dev/null || { echo "tlc missing"; exit 1; }
mkdir -p evidence replays
echo setup ok
