SPECIFICATION Spec
INVARIANT CreatedFirst
INVARIANT AtMostOnce
INVARIANT FuncAfterCall
INVARIANT Done
CHECK_DEADLOCK FALSE
