---- MODULE Wsgi ----
EXTENDS Naturals, Sequences, FiniteSets
(* One WSGI exchange.  Environment choices are fixed in Init; the application side is the behaviour the
   property prescribes.  Lengths are small integers (units), so the bounded reader is a loop, not a formula.
   tr is a history variable: the abstract trace START / CHUNK / ITERCLOSE / CTXCLOSED. *)
CONSTANTS MaxB, MaxL, Blocks
Kinds == {"ok","gen","fault","invalid","unknown","malformed","wsdl"}
NoCL == 99    \* CONTENT_LENGTH absent
EmptyCL == 98 \* CONTENT_LENGTH present but empty
VARIABLES pc, kind, B, L, CL, K, short, abort,      \* environment
          rd, func, tr, closed, delivered, nchunks   \* observation

env == <<kind, B, L, CL, K, short, abort>>
vars == <<pc, kind, B, L, CL, K, short, abort, rd, func, tr, closed, delivered, nchunks>>

Init == /\ pc = "call"
        /\ kind \in Kinds
        /\ B \in 0..MaxB /\ L \in 0..MaxL
        /\ CL \in (0..(MaxB+1)) \cup {NoCL, EmptyCL}
        /\ K \in Blocks
        /\ short \in BOOLEAN
        /\ abort \in {0,1,2,9}          \* 9 = consume everything
        /\ (kind = "wsdl" => /\ B = 0 /\ CL = NoCL /\ short = FALSE /\ K = 1 /\ L = MaxL)
        /\ (B = 0 => kind \in {"malformed","wsdl"})   \* every other kind needs a document
        /\ rd = 0 /\ func = FALSE /\ tr = <<>> /\ closed = 0 /\ delivered = 0
        /\ nchunks = 0

Declared == IF CL = NoCL THEN L ELSE IF CL = EmptyCL THEN 0 ELSE CL
TooLong == CL \notin {NoCL, EmptyCL} /\ CL > L
Want == Declared            \* bytes the app may ask for in total
FullBodyRead == rd = B      \* the parser saw the whole document
Eff == IF kind = "wsdl" THEN "wsdl"
       ELSE IF TooLong THEN "toolong"
       ELSE IF ~FullBodyRead THEN "malformed"
       ELSE kind

Emit(e) == tr' = Append(tr, e)

Call == /\ pc = "call"
        /\ pc' = IF kind = "wsdl" \/ TooLong THEN "respond" ELSE "read"
        /\ UNCHANGED <<env, rd, func, tr, closed, delivered, nchunks>>

\* bounded reader: never asks beyond Want, stops at EOF
Read == /\ pc = "read"
        /\ IF rd < Want /\ rd < B
             THEN \E n \in 1..K :
                    /\ n <= Want - rd
                    /\ (short => n = 1)
                    /\ (~short => n = IF K < Want - rd THEN K ELSE Want - rd)
                    /\ rd' = IF rd + n > B THEN B ELSE rd + n
                    /\ pc' = "read"
             ELSE rd' = rd /\ pc' = "process"
        /\ UNCHANGED <<env, func, tr, closed, delivered, nchunks>>

Process == /\ pc = "process"
           /\ func' = (Eff \in {"ok","gen","fault"})
           /\ pc' = "respond"
           /\ UNCHANGED <<env, rd, tr, closed, delivered, nchunks>>

Respond == /\ pc = "respond"
           /\ Emit(IF Eff \in {"ok","gen","wsdl"} THEN "START2xx" ELSE
                   IF Eff = "toolong" THEN "START413" ELSE "STARTerr")
           /\ nchunks' = IF Eff = "gen" THEN 2 ELSE 1
           /\ pc' = "body"
           /\ UNCHANGED <<env, rd, func, closed, delivered>>

Body == /\ pc = "body"
        /\ IF delivered < nchunks /\ delivered < abort
             THEN /\ delivered' = delivered + 1 /\ Emit("CHUNK") /\ pc' = "body"
             ELSE /\ delivered' = delivered /\ Emit("ITERCLOSE") /\ pc' = "close"
        /\ UNCHANGED <<env, rd, func, closed, nchunks>>

Close == /\ pc = "close" /\ closed' = closed + 1 /\ Emit("CTXCLOSED") /\ pc' = "done"
         /\ UNCHANGED <<env, rd, func, delivered, nchunks>>

Next == Call \/ Read \/ Process \/ Respond \/ Body \/ Close
Spec == Init /\ [][Next]_vars

Starts == Cardinality({i \in 1..Len(tr) : tr[i] \in {"START2xx","START413","STARTerr"}})
FirstChunk == IF \E i \in 1..Len(tr) : tr[i] = "CHUNK" THEN CHOOSE i \in 1..Len(tr) : tr[i] = "CHUNK" /\ \A j \in 1..(i-1) : tr[j] # "CHUNK" ELSE 0
ReadBound == rd <= L /\ (CL \notin {NoCL, EmptyCL} => rd <= CL)
StartOnceBeforeBody == Starts <= 1 /\ (FirstChunk > 0 => tr[1] \in {"START2xx","START413","STARTerr"})
NoFuncWhenTooLong == (TooLong => (~func /\ rd = 0))
NoFuncWhenOver == (B > L => ~func)
ClosedOnce == closed <= 1 /\ (pc = "done" => closed = 1 /\ tr[Len(tr)] = "CTXCLOSED")
ClosedAfterBody == \A i \in 1..Len(tr) : tr[i] = "CTXCLOSED" => \A j \in (i+1)..Len(tr) : tr[j] # "CHUNK"
====
