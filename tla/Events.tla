---- MODULE Events ----
EXTENDS Naturals, Sequences, FiniteSets
(* Request pipeline of one call; exactly one failure point (or none) and, where it matters, the kind of the
   exception are chosen in Init.  tr is a history variable: the event trace listeners must observe. *)
FailPoints == {"none","bytes","envelope","dispatch","argument",
               "call_listener","function","return_listener","serialize"}
Kinds == {"fault","other"}
VARIABLES pc, fp, kind, tr, funcRuns, funcReturned, ended

vars == <<pc, fp, kind, tr, funcRuns, funcReturned, ended>>

KindMatters(f) == f \in {"call_listener","function","return_listener"}

Init == /\ pc = "create"
        /\ fp \in FailPoints
        /\ kind \in Kinds
        /\ (~KindMatters(fp) => kind = "fault")
        /\ tr = <<>>
        /\ funcRuns = 0
        /\ funcReturned = FALSE
        /\ ended = "running"

Emit(e) == tr' = Append(tr, e)
Emit2(a,b) == tr' = tr \o <<a,b>>

Create == pc = "create" /\ Emit("method_context_created") /\ pc' = "parse"
          /\ UNCHANGED <<fp,kind,funcRuns,funcReturned,ended>>

Parse    == pc = "parse"    /\ (IF fp = "bytes"    THEN pc' = "fail" ELSE pc' = "envelope") /\ UNCHANGED <<tr,fp,kind,funcRuns,funcReturned,ended>>
Envelope == pc = "envelope" /\ (IF fp = "envelope" THEN pc' = "fail" ELSE pc' = "dispatch") /\ UNCHANGED <<tr,fp,kind,funcRuns,funcReturned,ended>>
Dispatch == pc = "dispatch" /\ (IF fp = "dispatch" THEN pc' = "fail" ELSE pc' = "deser")    /\ UNCHANGED <<tr,fp,kind,funcRuns,funcReturned,ended>>
Deser    == pc = "deser"    /\ (IF fp = "argument" THEN pc' = "fail" ELSE pc' = "call")     /\ UNCHANGED <<tr,fp,kind,funcRuns,funcReturned,ended>>

Call == /\ pc = "call" /\ Emit("method_call")
        /\ pc' = IF fp = "call_listener" THEN "fail" ELSE "func"
        /\ UNCHANGED <<fp,kind,funcRuns,funcReturned,ended>>

Func == /\ pc = "func" /\ Emit("FUNC") /\ funcRuns' = funcRuns + 1
        /\ IF fp = "function" THEN pc' = "fail" /\ UNCHANGED funcReturned
                              ELSE pc' = "ret" /\ funcReturned' = TRUE
        /\ UNCHANGED <<fp,kind,ended>>

Ret == /\ pc = "ret" /\ Emit("method_return_object")
       /\ pc' = IF fp = "return_listener" THEN "fail" ELSE "ser"
       /\ UNCHANGED <<fp,kind,funcRuns,funcReturned,ended>>

Ser == /\ pc = "ser"
       /\ IF fp = "serialize"
            THEN pc' = "fail" /\ UNCHANGED <<tr, ended>>
            ELSE Emit2("method_return_document","method_return_string") /\ pc' = "close" /\ ended' = "ok"
       /\ UNCHANGED <<fp,kind,funcRuns,funcReturned>>

Fail == /\ pc = "fail" /\ Emit("method_exception_object") /\ pc' = "sererr"
        /\ UNCHANGED <<fp,kind,funcRuns,funcReturned,ended>>

SerErr == /\ pc = "sererr" /\ Emit2("method_exception_document","method_exception_string")
          /\ pc' = "close" /\ ended' = "fault"
          /\ UNCHANGED <<fp,kind,funcRuns,funcReturned>>

Close == /\ pc = "close" /\ Emit("method_context_closed") /\ pc' = "done"
         /\ UNCHANGED <<fp,kind,funcRuns,funcReturned,ended>>

Next == Create \/ Parse \/ Envelope \/ Dispatch \/ Deser \/ Call \/ Func \/ Ret \/ Ser \/ Fail \/ SerErr \/ Close
Spec == Init /\ [][Next]_vars

Count(e) == Cardinality({i \in 1..Len(tr) : tr[i] = e})
Pos(e) == CHOOSE i \in 1..Len(tr) : tr[i] = e
Has(e) == \E i \in 1..Len(tr) : tr[i] = e

CreatedFirst == Len(tr) > 0 => tr[1] = "method_context_created"
AtMostOnce == \A e \in {"method_context_created","method_context_closed","FUNC","method_call",
        "method_return_object","method_exception_object"} : Count(e) <= 1
FuncAfterCall == Has("FUNC") => (Has("method_call") /\ Pos("method_call") < Pos("FUNC"))
Done == pc = "done" =>
   /\ tr[Len(tr)] = "method_context_closed" /\ Count("method_context_closed") = 1
   /\ (Has("method_return_object") <=> funcReturned)
   /\ (Has("method_exception_object") <=> ended = "fault")
   /\ (ended = "fault" => /\ Has("method_exception_document") /\ Has("method_exception_string")
                          /\ Pos("method_exception_object") < Pos("method_exception_document")
                          /\ Pos("method_exception_document") < Pos("method_exception_string")
                          /\ ~Has("method_return_document") /\ ~Has("method_return_string"))
   /\ (ended = "ok" => /\ Has("method_return_document") /\ Has("method_return_string")
                       /\ Pos("method_return_object") < Pos("method_return_document")
                       /\ Pos("method_return_document") < Pos("method_return_string")
                       /\ ~Has("method_exception_document") /\ ~Has("method_exception_string"))
====
