SPECIFICATION Spec
INVARIANT ReadBound
INVARIANT StartOnceBeforeBody
INVARIANT NoFuncWhenTooLong
INVARIANT NoFuncWhenOver
INVARIANT ClosedOnce
INVARIANT ClosedAfterBody
CHECK_DEADLOCK FALSE
